"""Checkpoint histories: a solver is copied (copy.deepcopy, or a pickle round trip) in the middle of a step-wise search
and the search is continued on the copy, then on the original.  The unchanged library supports this (the copy owns
copies of the problem, the parameters, the search information and the curve); the checks apply their own oracles to
what this module returns.

    reference   k + n iterations on one solver that was never copied
    copy        k iterations, copy, n iterations on the copy
    original    ... and then n iterations on the original

Every evaluation is logged by the (copied) EnvProblem of the solver that made it."""
from __future__ import annotations

import copy
import pickle

import numpy as np

from mc.common import quiet
from mc.env import EnvProblem, Snapshot, box
from mc.envs import make_env

from iOpt.solver import Solver
from iOpt.solver_parametrs import SolverParameters
from iOpt.evolvent.evolvent import Evolvent


def hexlog(log):
    return [([float(v).hex() for v in y], float(z).hex()) for y, z in log]


class NamedProblem(EnvProblem):
    """EnvProblem whose objective is known by name, so that the object can be pickled (the function is rebuilt)"""

    def __init__(self, N, lo, up, env):
        self.env_name, self.env_cfg = env, dict(N=N, lower=list(lo), upper=list(up))
        super().__init__(N, lo, up, make_env(env, self.env_cfg))

    def __getstate__(self):
        d = dict(self.__dict__)
        d.pop("answer", None)
        return d

    def __setstate__(self, d):
        self.__dict__.update(d)
        self.answer = make_env(self.env_name, self.env_cfg)


def _mk(N, bx, env, r, density, limit=10 ** 6, eps=0.0):
    lo, up = box(bx, N)
    p = NamedProblem(N, lo, up, env)
    kw = dict(eps=eps, r=r, itersLimit=limit)
    if density is not None:
        kw["evolventDensity"] = density
    with quiet():
        s = Solver(p, SolverParameters(**kw))
    return p, s


def history(task):
    """-> dict(error=..., ref=hexlog, copy=hexlog, orig=hexlog, solvers=(copy solver, copy problem, orig solver, orig problem))"""
    N, bx, env, r, k, n = task["N"], task["box"], task["env"], task["r"], task["k"], task["n"]
    how, density = task.get("how", "deepcopy"), task.get("density")
    out = dict(error=None)
    try:
        p0, s0 = _mk(N, bx, env, r, density)
        with quiet():
            s0.DoGlobalIteration(k + n)
        p, s = _mk(N, bx, env, r, density)
        with quiet():
            s.DoGlobalIteration(k)
            if how == "deepcopy":
                s2 = copy.deepcopy(s)
            elif how == "pickle":
                s2 = pickle.loads(pickle.dumps(s))
            else:
                raise KeyError(how)
            p2 = s2.task.problem
            if p2 is p:
                out["error"] = "the copied solver still evaluates the original's Problem object"
                return out
            s2.DoGlobalIteration(n)
            mid = hexlog(p.log)
            s.DoGlobalIteration(n)
    except BaseException as e:
        out["error"] = f"{type(e).__name__}: {e}"
        return out
    out.update(ref=hexlog(p0.log), copy=hexlog(p2.log), orig=hexlog(p.log), orig_mid=mid, k=k,
               solvers=(s2, p2, s, p))
    return out


def fresh_evolvent(p, N, density):
    return Evolvent(p.lowerBoundOfFloatVariables, p.upperBoundOfFloatVariables, N, density if density is not None else 10)


def first_diff(a, b):
    d = next((j for j, (u, v) in enumerate(zip(a, b)) if u != v), min(len(a), len(b)))
    return d + 1


def tasks(thorough, hows=("deepcopy", "pickle")):
    out = []
    for N, bx, env, r in ((1, "B1", "sin", 2.0), (2, "B1", "abs13", 3.0), (2, "D", "quad", 2.5), (3, "B2", "sin", 3.0)):
        for k in ((1, 2, 5, 12) if not thorough else (1, 2, 3, 5, 8, 12, 30)):
            for n in ((1, 6) if not thorough else (1, 3, 6, 20)):
                for how in hows:
                    out.append(dict(N=N, box=bx, env=env, r=r, k=k, n=n, how=how))
    return out


def _tag(t):
    return (f"{t['env']} N={t['N']} box={t['box']}: {t['k']} iterations, {t.get('how', 'deepcopy')} of the solver, "
            f"{t['n']} iterations on the copy, {t['n']} on the original")


def case_c11(t):
    o = history(t)
    if o["error"]:
        return [f"{_tag(t)}: {o['error']}"]
    msgs = []
    if o["copy"] != o["ref"]:
        msgs.append(f"{_tag(t)}: the copy's trial sequence differs from the uncopied run at trial {first_diff(o['copy'], o['ref'])}")
    if o["orig"] != o["ref"]:
        msgs.append(f"{_tag(t)}: the original's trial sequence differs from the uncopied run at trial {first_diff(o['orig'], o['ref'])}")
    return msgs


def case_c12(t):
    o = history(t)
    if o["error"]:
        return [f"{_tag(t)}: {o['error']}"]
    msgs = []
    if o["orig_mid"] != o["ref"][:t["k"]]:
        msgs.append(f"{_tag(t)}: iterating the copy added evaluations to the original's problem")
    if o["orig"] != o["ref"]:
        msgs.append(f"{_tag(t)}: after the copy had been iterated the original continues differently from a solver that was "
                    f"never copied (trial {first_diff(o['orig'], o['ref'])})")
    s2, p2, s, p = o["solvers"]
    from mc.monitors import check_record
    msgs += check_record(Snapshot(s), p.log, t["N"], fresh_evolvent(p, t["N"], t.get("density")),
                         f"{_tag(t)}: the original's search information")
    return msgs


def case_c04(t):
    o = history(t)
    if o["error"]:
        return [f"{_tag(t)}: {o['error']}"]
    from mc.monitors import check_optimum
    s2, p2, s, p = o["solvers"]
    return (check_optimum(Snapshot(s2), p2.log, f"{_tag(t)}: optimum reported by the copy") +
            check_optimum(Snapshot(s), p.log, f"{_tag(t)}: optimum reported by the original"))


def case_c06(t):
    o = history(t)
    if o["error"]:
        return [f"{_tag(t)}: {o['error']}"]
    from mc.monitors import check_record
    s2, p2, s, p = o["solvers"]
    return (check_record(Snapshot(s2), p2.log, t["N"], fresh_evolvent(p2, t["N"], t.get("density")),
                         f"{_tag(t)}: search information of the copy") +
            check_record(Snapshot(s), p.log, t["N"], fresh_evolvent(p, t["N"], t.get("density")),
                         f"{_tag(t)}: search information of the original"))


def case_c20(t):
    o = history(t)
    if o["error"]:
        return [f"{_tag(t)}: {o['error']}"]
    s2, p2, s, p = o["solvers"]
    m, N = t["density"], t["N"]
    msgs = []
    for who, pp in (("copy", p2), ("original", p)):
        lo = np.array(pp.lowerBoundOfFloatVariables, dtype=float)
        w = np.array(pp.upperBoundOfFloatVariables, dtype=float) - lo
        for j, (y, v) in enumerate(pp.log):
            c = (y - lo) / w * 2 ** m - 0.5
            if np.abs(c - np.rint(c)).max() > 1e-6:
                msgs.append(f"{_tag(t)}, evolventDensity={m}: trial {j + 1} of the {who} at {y.tolist()} is not a cell centre of "
                            f"the 2^{m} grid")
                break
    return msgs

"""Interleaving enumerators.

(a) merges: all interleavings of k operation lists at operation granularity.
(b) BatonScheduler: each body runs in its own thread, exactly one thread runs at a time (one semaphore
    per thread, one for the scheduler); the only switch points are the explicit yield_point() calls the
    harness places at operation boundaries and at the entry of the user objective.  Schedules are
    enumerated depth first by replaying choice prefixes (stateless exploration), optionally bounded by
    the number of preemptions."""
from __future__ import annotations

import threading


def merges(lengths):
    """all sequences over thread ids in which id i occurs lengths[i] times"""
    def rec(rem, acc):
        if not any(rem):
            yield tuple(acc)
            return
        for i, r in enumerate(rem):
            if r:
                rem[i] -= 1
                acc.append(i)
                yield from rec(rem, acc)
                acc.pop()
                rem[i] += 1
    yield from rec(list(lengths), [])


class Abort(BaseException):
    pass


class BatonScheduler:
    def __init__(self, bodies):
        """bodies: callables body(yield_fn) run in their own threads"""
        self.bodies = bodies
        self.n = len(bodies)
        self.sems = [threading.Semaphore(0) for _ in bodies]
        self.main = threading.Semaphore(0)
        self.done = [False] * self.n
        self.errors = [None] * self.n
        self.aborting = False
        self.threads = []

    def _wrap(self, i):
        def run():
            self.sems[i].acquire()
            try:
                if not self.aborting:
                    self.bodies[i](lambda: self._yield(i))
            except Abort:
                pass
            except BaseException as e:   # a body that raises is a finding of the harness' oracle
                self.errors[i] = e
            finally:
                self.done[i] = True
                self.main.release()
        return run

    def _yield(self, i):
        self.main.release()
        self.sems[i].acquire()
        if self.aborting:
            raise Abort()

    def run(self, choose, after_segment=None):
        """choose(enabled, running) -> thread id; after_segment(tid) is called in the scheduler thread while every
        body is blocked.  Returns the list of (enabled, chosen, running) decisions."""
        self.threads = [threading.Thread(target=self._wrap(i), daemon=True) for i in range(self.n)]
        for t in self.threads:
            t.start()
        decisions = []
        running = None
        try:
            while not all(self.done):
                enabled = [i for i in range(self.n) if not self.done[i]]
                c = choose(enabled, running if running in enabled else None)
                decisions.append((tuple(enabled), c, running if running in enabled else None))
                self.sems[c].release()
                self.main.acquire()
                running = c
                if after_segment:
                    after_segment(c)
        finally:
            self.aborting = True
            for i in range(self.n):
                if not self.done[i]:
                    self.sems[i].release()
            for t in self.threads:
                t.join(timeout=5)
        return decisions


def explore_schedules(make_bodies, on_execution, bound=None, limit=None, root=()):
    """Stateless DFS over all schedules (optionally <= bound preemptions).
    make_bodies() -> (bodies, after_segment) fresh for each execution; on_execution(schedule, ctx).
    Canonical order of enabled: the running thread first if still enabled, then ascending ids."""
    stack = [list(root)]   # only schedules whose first choices equal `root` (partition for parallel workers)
    count = 0
    while stack:
        prefix = stack.pop()
        bodies, after_segment, ctx = make_bodies()
        sch = BatonScheduler(bodies)
        pos = [0]

        def choose(enabled, running):
            order = ([running] if running is not None else []) + [i for i in enabled if i != running]
            k = pos[0]
            pos[0] += 1
            if k < len(prefix):
                if prefix[k] >= len(order):
                    raise RuntimeError("schedule prefix diverged during replay")
                return order[prefix[k]]
            return order[0]
        decisions = sch.run(choose, after_segment)
        # reconstruct choice indices
        choices = []
        for (enabled, c, running) in decisions:
            order = ([running] if running is not None else []) + [i for i in enabled if i != running]
            choices.append(order.index(c))
        on_execution([d[1] for d in decisions], ctx, sch)
        count += 1
        if limit and count >= limit:
            return count, False
        # children: deviate at every position after the prefix
        pre = 0
        costs = []
        for k, (enabled, c, running) in enumerate(decisions):
            costs.append(pre)
            if running is not None and c != running:
                pre += 1
        if bound is not None and pre > bound:
            continue   # a root that already exceeds the bound
        for k in range(len(decisions) - 1, len(prefix) - 1, -1):
            enabled, c, running = decisions[k]
            order = ([running] if running is not None else []) + [i for i in enabled if i != running]
            for alt in range(1, len(order)):
                cost = costs[k] + (1 if running is not None else 0)
                if bound is not None and cost > bound:
                    continue
                stack.append(choices[:k] + [alt])
    return count, True

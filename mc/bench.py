"""Adapters for the shipped benchmark families: instances, evaluation through the repository's own
Calculate, analytic Lipschitz bounds computed from the coefficient tables as they are at run time."""
from __future__ import annotations

import math

import numpy as np

from iOpt.trial import Point, FunctionValue, FunctionType


def evaluator(p, ftype=None, fid=None):
    def f(c):
        fv = FunctionValue()
        if ftype is not None:
            fv = FunctionValue(ftype, fid)
        return float(p.Calculate(Point(np.array(c, dtype=np.double), []), fv).value)
    return f


def declared(p):
    t = p.knownOptimum[0]
    return np.array(t.point.floatVariables, dtype=float), float(t.functionValues[0].value)


def bounds(p):
    return (np.array([float(v) for v in p.lowerBoundOfFloatVariables]),
            np.array([float(v) for v in p.upperBoundOfFloatVariables]))


# ---------------------------------------------------------------- Hill
def hill(k):
    from iOpt.problems.hill import Hill
    import iOpt.problems.Hill.hill_generation as H
    p = Hill(k)
    i = np.arange(H.NUM_HILL_COEFF)
    L = float(2 * math.pi * np.sum(i * (np.abs(H.aHill[k]) + np.abs(H.bHill[k]))))
    L2 = float((2 * math.pi) ** 2 * np.sum(i * i * (np.abs(H.aHill[k]) + np.abs(H.bHill[k]))))
    return p, (lambda a, b: L), dict(L=L, L2=L2)


# ---------------------------------------------------------------- Shekel (1-D)
def _sup_g1(k, c, tmin, tmax):
    """sup over |t| in [tmin, tmax] of 2k|t|/(k t^2 + c)^2"""
    ts = math.sqrt(c / (3 * k))
    g = lambda t: 2 * k * t / (k * t * t + c) ** 2
    if tmin <= ts <= tmax:
        return g(ts)
    return max(g(tmin), g(tmax))


def shekel(k):
    from iOpt.problems.shekel import Shekel
    import iOpt.problems.Shekel.shekel_generation as S
    p = Shekel(k)
    ks, a_, cs = S.kShekel[k], S.aShekel[k], S.cShekel[k]
    n = S.NUM_SHEKEL_COEFF

    def Lcell(a, b):
        tot = 0.0
        for i in range(n):
            lo_t = 0.0 if a[0] <= a_[i] <= b[0] else min(abs(a[0] - a_[i]), abs(b[0] - a_[i]))
            hi_t = max(abs(a[0] - a_[i]), abs(b[0] - a_[i]))
            tot += _sup_g1(ks[i], cs[i], lo_t, hi_t)
        return tot
    L = float(sum((3 * math.sqrt(3) / 8) * math.sqrt(ks[i]) * cs[i] ** -1.5 for i in range(n)))
    # second derivative of 1/(k t^2 + c): |g''| <= 2k/c^2 (attained at t = 0)
    L2 = float(sum(2 * ks[i] / cs[i] ** 2 for i in range(n)))
    return p, Lcell, dict(L=L, L2=L2)


# ---------------------------------------------------------------- Shekel4
def shekel4(k):
    from iOpt.problems.shekel4 import Shekel4
    import iOpt.problems.Shekel4.shekel4_generation as S
    p = Shekel4(k)
    m = int(S.maxI[k - 1])
    A = np.array(S.a[:m], dtype=float)
    C = np.array(S.c[:m], dtype=float)

    def Lcell(a, b):
        tot = 0.0
        for i in range(m):
            near = np.clip(A[i], a, b)
            dmin = float(np.linalg.norm(near - A[i]))
            far = np.where(np.abs(a - A[i]) > np.abs(b - A[i]), a, b)
            dmax = float(np.linalg.norm(far - A[i]))
            tot += _sup_g1(1.0, C[i], dmin, dmax)
        return tot
    return p, Lcell, dict(L=float(sum((3 * math.sqrt(3) / 8) * C ** -1.5)))


# ---------------------------------------------------------------- Grishagin
class GrishaginBound:
    """f = -sqrt(F), F = d1^2 + d2^2 a smooth trigonometric polynomial.  h = -f^2 = -F is monotone in f (f <= 0),
    so a certified lower bound of h on a cell gives one of f.  Second-order bound:
    h(x) >= h(c) - |grad h(c)| rad - H rad^2 / 2, grad by central differences of the repository's Calculate
    (error margin included), H an analytic bound of the Hessian norm of F from the coefficient tables."""

    def __init__(self, fn, f):
        i = np.arange(1, 8, dtype=float)
        self.f = f
        self.extra_evals = 0

        def parts(P, Q):
            ab = np.abs(P) + np.abs(Q)
            D = float(np.sum(ab))
            gi = float(np.sum(i[:, None] * ab))
            gj = float(np.sum(i[None, :] * ab))
            G = math.pi * math.hypot(gi, gj)
            hii = float(np.sum(i[:, None] ** 2 * ab))
            hjj = float(np.sum(i[None, :] ** 2 * ab))
            hij = float(np.sum(i[:, None] * i[None, :] * ab))
            H = math.pi ** 2 * math.sqrt(hii ** 2 + 2 * hij ** 2 + hjj ** 2)
            return D, G, H
        D1, G1, H1 = parts(fn.af, fn.bf)
        D2, G2, H2 = parts(fn.cf, fn.df)
        self.H = 2.0 * (G1 * G1 + D1 * H1 + G2 * G2 + D2 * H2)
        self.L = math.hypot(G1, G2)      # first-order bound of |grad f| (f = -|(d1, d2)|)
        self.h = 1e-5

    def __call__(self, a, b):
        return self.L

    def low(self, a, b, c, v, rad):
        first = v - self.L * rad
        if rad > 0.05:
            return first
        h = self.h
        g = np.zeros(len(c))
        for k in range(len(c)):
            e = np.zeros(len(c))
            e[k] = h
            fp, fm = self.f(c + e), self.f(c - e)
            g[k] = (-(fp * fp) + (fm * fm)) / (2 * h)
        self.extra_evals += 2 * len(c)
        gn = float(np.linalg.norm(g)) + self.H * h     # finite-difference error margin (generous)
        hlow = -(v * v) - gn * rad - 0.5 * self.H * rad * rad
        second = -math.sqrt(-hlow) if hlow < 0 else 0.0
        return max(first, second)


def grishagin(k):
    from iOpt.problems.grishagin import Grishagin
    p = Grishagin(k)
    B = GrishaginBound(p.function, evaluator(p))
    return p, B, dict(L=B.L, H=B.H)


# ---------------------------------------------------------------- Rastrigin / XSquared (1-D members)
def rastrigin(n):
    from iOpt.problems.rastrigin import Rastrigin
    p = Rastrigin(n)
    L1 = 2 * 2.2 + 20 * math.pi
    return p, (lambda a, b: L1 * math.sqrt(n)), dict(L=L1 * math.sqrt(n))


def xsquared(n):
    from iOpt.problems.xsquared import XSquared
    p = XSquared(n)
    return p, (lambda a, b: 2.0 * math.sqrt(n)), dict(L=2.0 * math.sqrt(n))


# ---------------------------------------------------------------- StronginC3
def _sup(fn, lo, hi, n=20001, margin=1.05):
    x = np.linspace(lo, hi, n)
    return float(np.max(np.abs(fn(x)))) * margin


def strongin():
    from iOpt.problems.stronginC3 import StronginC3
    p = StronginC3()
    # objective -(A + B); bounds of the partial derivatives on [0,4] x [-1,3], factor by factor
    ex = _sup(lambda x: x * np.exp(1 - x * x), 0, 4)
    ex3 = _sup(lambda x: x ** 3 * np.exp(1 - x * x), 0, 4)
    ex2 = _sup(lambda x: x * x * np.exp(1 - x * x), 0, 4)
    dd = _sup(lambda d: np.abs(d) * np.exp(-20.25 * d * d), -4, 5)
    dA2 = 60.75 * ex2 * dd
    dA1 = 3 * ex + 3 * ex3 + dA2
    u = 1.0 / math.e
    s1 = _sup(lambda s: 2 * np.abs(s) ** 3 * np.abs(1 - s ** 4) * np.exp(-s ** 4), -0.5, 1.5)
    s2 = _sup(lambda s: 4 * np.abs(s) ** 3 * np.abs(1 - s ** 4) * np.exp(-s ** 4), -2.0, 2.0)
    dB1 = math.e ** 2 * s1 * u
    dB2 = math.e ** 2 * s2 * u
    Lf = math.hypot(dA1 + dB1, dA2 + dB2)
    Lg = [0.02 * math.hypot(2.2, 2.2), 100 * math.hypot(2 * 2.0 / 1.44, 3.0 / 2.0), 10 * math.hypot(1.5 * 6.283, 1.0)]
    f = evaluator(p, FunctionType.OBJECTIV, 0)
    gs = [(evaluator(p, FunctionType.CONSTRAINT, j), (lambda a, b, L=Lg[j]: L)) for j in range(3)]
    return p, f, (lambda a, b: Lf), gs, dict(L=Lf, Lg=Lg)


class Second1D:
    """1-D second-order cell bound: f(x) >= f(c) - (|f'(c)| + F2 h) rad - F2 rad^2 / 2, f'(c) by central differences of the
    repository's Calculate; the first-order bound with the (cell-local) Lipschitz constant is used when it is better."""

    def __init__(self, f, Lfun, F2, h=1e-6, sign=1.0):
        self.f, self.Lfun, self.F2, self.h, self.sign = f, Lfun, F2, h, sign
        self.extra_evals = 0

    def __call__(self, a, b):
        return self.Lfun(a, b)

    def low(self, a, b, c, v, rad):
        first = v - self.Lfun(a, b) * rad
        h = min(self.h, 0.25 * rad) if rad > 0 else self.h
        if h <= 0:
            return first
        e = np.array([h])
        g = (self.f(c + e) - self.f(c - e)) / (2 * h)
        self.extra_evals += 2
        second = v - (abs(g) + self.F2 * h) * rad - 0.5 * self.F2 * rad * rad
        return max(first, second)

"""Shared plumbing: repo location, evidence, replay artefacts, known findings, runner.

Every check module (checks/cNN.py) exposes

    PROPERTY, LEVEL
    run(ctx)      -> Result      (exhaustive exploration; ctx.tier, ctx.seed, ctx.workers)
    replay(rec)   -> list[str]   (messages; empty = the recorded case does not violate)

and this module turns that into the command line contract of MANIFEST.json.
"""
from __future__ import annotations

import contextlib
import hashlib
import io
import json
import os
import subprocess
import sys
import time
import warnings

VERIF = os.path.dirname(os.path.dirname(os.path.abspath(__file__)))
REPO = os.environ.get("IOPT_REPO", "/repo")
if REPO not in sys.path:
    sys.path.insert(0, REPO)
warnings.simplefilter("ignore")
os.environ.setdefault("MPLBACKEND", "Agg")

WORKERS = int(os.environ.get("VERIF_WORKERS", "16"))


@contextlib.contextmanager
def quiet():
    """Swallow what iOpt prints (Solve prints instead of raising)."""
    buf = io.StringIO()
    with contextlib.redirect_stdout(buf):
        yield buf


def jsonable(o):
    import numpy as np
    if isinstance(o, dict):
        return {str(k): jsonable(v) for k, v in o.items()}
    if isinstance(o, (list, tuple)):
        return [jsonable(v) for v in o]
    if isinstance(o, np.ndarray):
        return [jsonable(v) for v in o.tolist()]
    if isinstance(o, (np.floating,)):
        return jsonable(float(o))
    if isinstance(o, (np.integer,)):
        return int(o)
    if isinstance(o, (np.bool_,)):
        return bool(o)
    if isinstance(o, float):
        if o != o:
            return "nan"
        if o in (float("inf"), float("-inf")):
            return "inf" if o > 0 else "-inf"
        return o
    if isinstance(o, (int, str, bool)) or o is None:
        return o
    return repr(o)


class Ctx:
    def __init__(self, tier, seed):
        self.tier = tier
        self.seed = seed
        self.thorough = tier == "thorough"
        self.workers = WORKERS

    def pick(self, seq, n):
        """deterministic rotation of a fixed list: n consecutive entries starting at seed"""
        seq = list(seq)
        if n >= len(seq):
            return seq
        s = self.seed % len(seq)
        return [seq[(s + i) % len(seq)] for i in range(n)]


class Result:
    """What one exploration covered and what it found."""

    def __init__(self):
        self.violations = []       # replay records (dicts) - each must be re-executable by replay()
        self.n_violations = 0
        self.cov = {}              # coverage keys (counts, samples ...)
        self.assumptions = []
        self.notes = []

    def add_violation(self, rec, cap=40):
        self.n_violations += 1
        if len(self.violations) < cap:
            self.violations.append(rec)

    def merge_violations(self, recs):
        for r in recs:
            self.add_violation(r)


_PMAP_CALLS = []      # (function, chunksize, items) of every pmap call of this run - used to reconstruct histories


class ItemCrash(Exception):
    """a work item raised; carries what is needed to replay it"""

    def __init__(self, fn, item, history, text, in_iopt):
        super().__init__(text)
        self.fn, self.item, self.history, self.text, self.in_iopt = fn, item, history, text, in_iopt


class _Crash:
    def __init__(self, index, text, in_iopt):
        self.index, self.text, self.in_iopt = index, text, in_iopt


class ItemTimeout(Exception):
    pass


ITEM_TIMEOUT = int(os.environ.get("VERIF_ITEM_TIMEOUT", "1500"))     # seconds per work item (they normally take < 60 s)


def _run_chunk(args):
    fn, chunk = args
    out = []
    import signal

    def on_alarm(signum, frame):
        raise ItemTimeout(f"work item still running after {ITEM_TIMEOUT} s (the implementation does not return)")
    for i, t in enumerate(chunk):
        try:
            try:
                signal.signal(signal.SIGALRM, on_alarm)
                signal.alarm(ITEM_TIMEOUT)
            except ValueError:
                pass      # not in the main thread of this process: no watchdog
            try:
                out.append(fn(t))
            finally:
                try:
                    signal.alarm(0)
                except ValueError:
                    pass
        except Exception as e:
            import traceback
            tb = traceback.extract_tb(e.__traceback__)
            in_iopt = bool(tb) and os.path.abspath(tb[-1].filename).startswith(os.path.abspath(REPO) + os.sep)
            if isinstance(e, ItemTimeout):
                inside = [f for f in tb if os.path.abspath(f.filename).startswith(os.path.abspath(REPO) + os.sep)]
                in_iopt = bool(inside)
                if inside:
                    tb = tb[:tb.index(inside[-1]) + 1]
            where = f"{os.path.basename(tb[-1].filename)}:{tb[-1].lineno} in {tb[-1].name}" if tb else "?"
            out.append(_Crash(i, f"{type(e).__name__}: {e} ({where})", in_iopt))
            break
    return out


def pmap(fn, items, workers=None, chunksize=1):
    """Order-preserving parallel map.  Every chunk of `chunksize` consecutive items is processed by a child forked
    from this (pristine: it never runs iOpt code itself) process and by nothing else, so the complete in-process
    history of item i is the items of its own chunk before it - nothing an unrelated work item left behind in module
    state can influence it, and a finding can be replayed from its chunk prefix alone."""
    items = list(items)
    workers = workers or WORKERS
    _PMAP_CALLS.append((fn, max(1, chunksize), items))
    if workers <= 1 or len(items) <= 1:
        o = _run_chunk((fn, items))
        if o and isinstance(o[-1], _Crash):
            cr = o[-1]
            raise ItemCrash(f"{fn.__module__}:{fn.__qualname__}", items[cr.index], items[:cr.index], cr.text, cr.in_iopt)
        return o
    import multiprocessing as mp
    ctx = mp.get_context("fork")
    cs = max(1, chunksize)
    chunks = [items[i:i + cs] for i in range(0, len(items), cs)]
    with ctx.Pool(min(workers, len(chunks)), maxtasksperchild=1) as pool:
        outs = pool.map(_run_chunk, [(fn, c) for c in chunks], 1)
    for c, o in zip(chunks, outs):
        if o and isinstance(o[-1], _Crash):
            cr = o[-1]
            raise ItemCrash(f"{fn.__module__}:{fn.__qualname__}", c[cr.index], c[:cr.index], cr.text, cr.in_iopt)
    return [o for c in outs for o in c]


def find_history(rec):
    """the items that the process which produced violation record `rec` had executed before it (its chunk prefix)"""
    jr = jsonable(rec)
    for fn, cs, items in reversed(_PMAP_CALLS):
        if cs <= 1:
            continue
        for idx, t in enumerate(items):
            if isinstance(t, dict) and t:
                jt = jsonable(t)
                if all(k in jr and jr[k] == v for k, v in jt.items()):
                    lo = idx - idx % cs
                    if idx > lo:
                        return dict(fn=f"{fn.__module__}:{fn.__qualname__}", items=jsonable(items[lo:idx]))
                    return None
    return None


def replay_crash(rec):
    """a work item whose drive of the implementation ended in an exception raised inside iOpt: run it again"""
    import importlib
    modname, name = rec["fn"].split(":")
    fn = getattr(importlib.import_module(modname), name)
    o = _run_chunk((fn, [rec["item"]]))
    if o and isinstance(o[-1], _Crash) and o[-1].in_iopt:
        return [f"driving the implementation with valid input raised {o[-1].text}"]
    return []


def run_history(hist):
    """re-execute the recorded chunk prefix (results ignored) so that the interpreter carries the same history"""
    import importlib
    modname, name = hist["fn"].split(":")
    fn = getattr(importlib.import_module(modname), name)
    for t in hist["items"]:
        try:
            fn(t)
        except BaseException:
            pass


def pmap_fresh(fn, items, workers=None):
    """order-preserving parallel map in which every item is processed by a process of its own (spawned
    interpreter, one job per process): nothing an earlier item left behind in module state can influence a later
    one, so the complete in-process history of a finding is the item itself."""
    items = list(items)
    if not items:
        return []
    import multiprocessing as mp
    with mp.get_context("spawn").Pool(min(workers or WORKERS, len(items)), maxtasksperchild=1) as pool:
        return pool.map(fn, items, 1)


def repo_head():
    try:
        return subprocess.run(["git", "-C", REPO, "rev-parse", "--short", "HEAD"], capture_output=True,
                              text=True).stdout.strip()
    except Exception:
        return "?"


def load_known():
    with open(os.path.join(VERIF, "known_findings.json")) as f:
        return json.load(f)


def match_known(prop, rec):
    """A known finding matches when every key of its `match` equals the record's `sig`."""
    sig = rec.get("sig") or {}
    for e in load_known()["findings"]:
        if e.get("status") != "known" or e.get("property") != prop:
            continue
        m = e.get("match") or {}
        if m and all(sig.get(k) == v for k, v in m.items()):
            return e
    return None


def write_replay(prop, rec):
    rec = jsonable(rec)
    rec["property"] = prop
    rec.setdefault("repo_head", repo_head())
    body = json.dumps({k: rec[k] for k in rec if k not in ("repo_head",)}, sort_keys=True)
    sha = hashlib.sha1(body.encode()).hexdigest()[:8]
    path = os.path.join(os.environ.get("VERIF_REPLAY_DIR") or os.path.join(VERIF, "replays"), f"{prop}-{sha}.json")
    os.makedirs(os.path.dirname(path), exist_ok=True)
    with open(path, "w") as f:
        json.dump(rec, f, indent=1, sort_keys=True)
    return path


def confirm_in_subprocess(prop, path):
    """Re-execute a recorded case in a fresh interpreter; True when it violates again."""
    env = dict(os.environ)
    env["PYTHONHASHSEED"] = "0"
    p = subprocess.run([sys.executable, "-m", "mc.main", prop, "quick", "--replay", path, "--confirm"],
                       cwd=VERIF, env=env, capture_output=True, text=True, timeout=3600)
    return p.returncode == 1, (p.stdout + p.stderr)[-2000:]


def write_evidence(prop, level, tier, seed, cov, wall, nviol, assumptions, extra=None):
    cov = dict(cov)
    cov.setdefault("evaluations", 0)
    cov.setdefault("samples", [])
    ev = {
        "property_id": prop, "tier": tier, "seed": seed, "level": level,
        "coverage": jsonable(cov), "assumptions": list(assumptions), "wall_s": round(wall, 2),
        "violations": int(nviol), "repo_head": repo_head(), "repo_path": REPO,
    }
    if extra:
        ev.update(jsonable(extra))
    path = os.path.join(os.environ.get("VERIF_EVIDENCE_DIR") or os.path.join(VERIF, "evidence"), f"{prop}.json")
    os.makedirs(os.path.dirname(path), exist_ok=True)
    tmp = path + ".tmp"
    with open(tmp, "w") as f:
        json.dump(ev, f, indent=1)
    os.replace(tmp, path)
    return path


def main(argv=None):
    argv = list(sys.argv[1:] if argv is None else argv)
    prop = argv[0].upper()
    tier = argv[1] if len(argv) > 1 and not argv[1].startswith("--") else os.environ.get("VERIF_TIER", "quick")
    if tier not in ("quick", "thorough"):
        tier = "quick"
    seed = int(os.environ.get("VERIF_SEED", "0") or 0)
    import importlib
    mod = importlib.import_module("checks." + prop.lower())

    if "--replay" in argv:
        path = argv[argv.index("--replay") + 1]
        with open(path) as f:
            rec = json.load(f)
        if rec.get("_history"):
            run_history(rec["_history"])
        if rec.get("driver") == "crash":
            msgs = replay_crash(rec)
        else:
            msgs = mod.replay(rec)
        if msgs:
            for m in msgs[:10]:
                print("replay:", m)
            known = match_known(prop, rec)
            if known and "--confirm" not in argv:
                print(f"KNOWN-FINDING: property={prop} {known['what_fails']}")
                return 0
            print(f"VIOLATION property={prop} replay={path}")
            return 1
        print("replay: recorded case does not violate the property on this tree")
        return 0

    t0 = time.time()
    ctx = Ctx(tier, seed)
    global ITEM_TIMEOUT
    if tier == "thorough" and "VERIF_ITEM_TIMEOUT" not in os.environ:
        ITEM_TIMEOUT = 5400
    try:
        res = mod.run(ctx)
    except ItemCrash as c:
        if not c.in_iopt:
            raise
        # An exception raised INSIDE iOpt while a work item drove it with valid input.  On the unchanged tree no work
        # item raises; such a crash is reported as a finding of this property's exploration, with the item as replay.
        res = Result()
        rec = dict(driver="crash", fn=c.fn, item=jsonable(c.item), message=f"work item {c.fn} raised inside iOpt: {c.text}",
                   sig=dict(kind="crash"))
        if c.history:
            rec["_history"] = dict(fn=c.fn, items=jsonable(c.history))
        res.add_violation(rec)
        res.cov = dict(states=1, transitions=1, traces_validated_against_impl=1, evaluations=1, distinct_nontrivial=1,
                       rule="aborted run: the exploration stopped at the first work item that raised inside iOpt; the only "
                            "case counted is that work item", exhaustive=False,
                       samples=[dict(fn=c.fn, item=jsonable(c.item))])
    wall = time.time() - t0

    real, known_hits, harness_err = [], [], []
    seen_known = set()
    for rec in res.violations:
        k = match_known(prop, rec)
        if k is not None:
            if k["id"] not in seen_known:
                seen_known.add(k["id"])
                known_hits.append(k)
            continue
        real.append(rec)
    n_real = res.n_violations - (len(res.violations) - len(real)) if res.n_violations >= len(res.violations) else len(real)
    reported = []
    confirmed = []
    tried = 0
    for rec in real:
        if len(reported) >= 5 or tried >= 12 or (reported and tried >= 8):
            break
        tried += 1
        path = write_replay(prop, rec)
        ok, out = confirm_in_subprocess(prop, path)
        if not ok:
            # the finding may need what earlier work items of the same process left behind: replay with that history
            hist = find_history(rec)
            if hist:
                rec = dict(rec, _history=hist)
                path = write_replay(prop, rec)
                ok, out = confirm_in_subprocess(prop, path)
        if ok:
            reported.append(path)
            confirmed.append(rec)
        else:
            harness_err.append((path, out))
    if reported:
        # at least one finding reproduces in a fresh process: that decides the run; the others are listed in the log only
        harness_err = []
    cov = dict(res.cov)
    cov["known_findings_matched"] = [k["id"] for k in known_hits]
    write_evidence(prop, mod.LEVEL, tier, seed, cov, wall, len(real), res.assumptions,
                   extra={"notes": res.notes} if res.notes else None)
    for k in known_hits:
        print(f"KNOWN-FINDING: property={prop} {k['what_fails']}")
    summary = {k: v for k, v in cov.items() if isinstance(v, (int, float, bool, str))}
    print(f"[{prop} {tier} seed={seed}] wall={wall:.1f}s violations={len(real)} coverage={json.dumps(jsonable(summary))}")
    if reported:
        for rec in confirmed:
            print("  ", rec.get("message", "")[:400])
        for path in reported:
            print(f"VIOLATION property={prop} replay={path}")
        return 1
    if harness_err:
        for path, out in harness_err:
            print(f"HARNESS-ERROR: violation did not reproduce in a fresh process: {path}\n{out}")
        return 2
    return 0

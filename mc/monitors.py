"""Oracles evaluated on solver executions (visitors of mc.tree)."""
from __future__ import annotations

import math

import numpy as np

from mc.refmodel import RefAGP
from mc.env import Snapshot


def trial_order(run, snap):
    """Curve coordinates of the trials in the order they were evaluated, or None when it cannot be
    established.  Primary source: the evaluation log joined with the traversal of the search information
    on the evaluated point (unique unless two trials share a grid cell); fallback: the coordinates a
    harness listener saw in OnEndIteration, accepted only if they are exactly the traversed coordinates."""
    log = run.problem.log
    inner = snap.items[1:-1]
    if len(inner) != len(log):
        return None
    by_y = {}
    for it in inner:
        by_y.setdefault(np.asarray(it.y, dtype=np.double).tobytes(), []).append((it.x, it.z))
    xs = []
    twins = False
    unmatched = []          # log positions whose point is not stored (a local refinement overwrites the best item's point)
    for pos, (y, v) in enumerate(log):
        c = by_y.get(np.asarray(y, dtype=np.double).tobytes())
        if not c:
            xs.append(None)
            unmatched.append(pos)
            continue
        if len(c) > 1:
            # several coordinates share one evaluated point (N >= 2: one grid cell; N = 1: adjacent doubles): tell
            # them apart by the stored value; trials with equal point AND equal value are interchangeable
            twins = True
            k = next((i for i, (_, z) in enumerate(c) if z == v), None)
            if k is None:
                xs = None
                break
            xs.append(c.pop(k)[0])
        else:
            xs.append(c.pop(0)[0])
    if xs is not None and unmatched:
        # the items nobody claimed, matched to the unmatched evaluations by their stored value (must be unambiguous)
        left = [e for lst in by_y.values() for e in lst]
        for pos in unmatched:
            cand = [e for e in left if e[1] == log[pos][1]]
            if len(cand) != 1:
                xs = None
                break
            xs[pos] = cand[0][0]
            left.remove(cand[0])
    if xs is not None and len(set(xs)) == len(xs) == len(inner):
        if not twins:
            return xs
        xl = list(getattr(run, "xlog", ()))
        if len(xl) == len(log) and all(x is not None for x in xl) and sorted(xl) == [it.x for it in inner]:
            return xl      # the listener saw the true order
        return xs
    xl = list(getattr(run, "xlog", ()))
    if len(xl) == len(log) and all(x is not None for x in xl) and sorted(xl) == [it.x for it in inner]:
        return xl
    return None


def resolution_horizon(run, cfg):
    """True when the step-wise API could not place the next trial because an interval of maximal
    characteristic (reference model fed with the run's own trials) has collapsed to end points at most
    4 doubles apart - no double lies strictly inside it.  That is the C03 known finding (resolution
    horizon); no trial is placed, so the properties about placed trials have no obligation there."""
    from mc.env import ulp_dist
    zs = [v for _, v in run.problem.log]
    xs = trial_order(run, Snapshot(run.solver))     # (a batch that raised never reached its listeners)
    if xs is None or len(xs) < 2 or len(xs) != len(zs):
        return False
    ref = RefAGP(cfg["N"], cfg.get("r", 2.0))
    for x, z in zip(xs, zs):
        ref.add(x, z)
    R = ref.chars()
    Rmax = max(R)
    tol = 1e-9 * max(1.0, abs(Rmax))
    for j, v in enumerate(R, start=1):
        if v >= Rmax - tol and ulp_dist(ref.xs[j - 1], ref.xs[j]) <= 4:
            return True
    return False


class AGPVisitor:
    """C02: every trial is placed by the AGP decision rule (step-wise conformance with RefAGP)."""

    def begin(self, run, cfg):
        self.ref = RefAGP(cfg["N"], cfg.get("r", 2.0))
        self.ev = run.fresh_evolvent()
        self.ties = 0
        self.boundary_choices = 0
        self.info = None
        self.blind = False

    new_from = 1
    unjudged = 0

    def node(self, run, j, new):
        """called after the DoGlobalIteration call that completed trial j; judges every trial made since
        the previous call, in the order it was made (a call may make several trials)"""
        snap = Snapshot(run.solver)
        self.snap = snap
        msgs = []
        log = run.problem.log
        if getattr(self, "blind", False):
            return msgs
        n0 = len(self.ref.trials)
        inner = len(snap.items) - 2
        if len(log) != j or inner != j:
            return [f"after iteration {j}: {len(log)} evaluations logged and {inner - n0} new coordinates in the "
                    f"search information (expected {j} and {j - n0})"]
        xs = trial_order(run, snap)
        if xs is None:
            # the record does not identify which trial was made when (a C06 matter); nothing to judge here
            # (and nothing later in this execution: the model's M depends on the order of the trials)
            self.unjudged += 1
            self.blind = True
            return msgs
        for t in range(n0 + 1, j + 1):
            x = xs[t - 1]
            y, z = log[t - 1]
            if new and t >= self.new_from:
                m, info = self.ref.judge(x)
                msgs += m
                self.info = info
                if info.get("ties", 1) > 1:
                    self.ties += 1
                img = self.ev.GetImage(x)
                if not np.array_equal(np.asarray(y), img):
                    msgs.append(f"trial {t}: evaluated point {y.tolist()} is not the evolvent image {img.tolist()} of x={x!r}")
            self.ref.add(x, z)
        return msgs

    def leaf(self, run):
        return []


def check_optimum(snap, log, where):
    """C04 oracle on one moment"""
    msgs = []
    if not log:
        return msgs
    vals = [v for _, v in log]
    zmin = min(vals)
    bp, bv = snap.best_point, snap.best_value
    if bp is None:
        return [f"{where}: no best trial available after {len(log)} evaluations"]
    hit = [v for (y, v) in log if np.array_equal(y, bp)]
    if not hit:
        msgs.append(f"{where}: reported best point {bp.tolist()} is not one of the {len(log)} evaluated points")
    elif not any(v == bv for v in hit):
        msgs.append(f"{where}: reported value {bv!r} differs from the objective value {hit[0]!r} at the reported point")
    if not (bv == zmin):
        msgs.append(f"{where}: reported best value {bv!r} but the smallest evaluated value is {zmin!r}")
    return msgs


def check_record(snap, log, N, ev, where):
    """C06 oracle on one moment: ordered, complete, faithful record"""
    msgs = list(snap.link_errors)
    items = snap.items
    image = ev if callable(ev) else ev.GetImage
    if len(items) < 3:
        return msgs + [f"{where}: search information has {len(items)} items after {len(log)} trials"]
    xs = [it.x for it in items]
    if xs[0] != 0.0 or xs[-1] != 1.0:
        msgs.append(f"{where}: traversal runs from {xs[0]!r} to {xs[-1]!r}, not from 0 to 1")
    if any(not (a < b) for a, b in zip(xs, xs[1:])):
        msgs.append(f"{where}: coordinates not strictly increasing: {xs}")
    if snap.count != len(log) + 2:
        msgs.append(f"{where}: GetCount()={snap.count} but {len(log)} trials + 2 end points expected")
    if len(items) != len(log) + 2:
        msgs.append(f"{where}: traversal yields {len(items)} items, expected {len(log) + 2}")
    # interior items are exactly the evaluated trials
    pending = [(y, v) for (y, v) in log]
    for it in items[1:-1]:
        found = None
        for i, (y, v) in enumerate(pending):
            if np.array_equal(y, it.y):
                if v == it.z and v == it.fv:
                    found = i
                    break
                if found is None:
                    found = -i - 1
        if found is None:
            msgs.append(f"{where}: item x={it.x!r} stores point {np.asarray(it.y).tolist()} which was never evaluated")
        elif found < 0:
            y, v = pending[-found - 1]
            msgs.append(f"{where}: item x={it.x!r} stores z={it.z!r}, value holder {it.fv!r}; objective gave {v!r} there")
        else:
            pending.pop(found)
        img = image(it.x)
        if not np.array_equal(img, np.asarray(it.y)):
            msgs.append(f"{where}: item x={it.x!r} stores point {np.asarray(it.y).tolist()}, evolvent image is {img.tolist()}")
    for end in (items[0], items[-1]):
        img = image(end.x)
        if not np.array_equal(img, np.asarray(end.y)):
            msgs.append(f"{where}: end item x={end.x!r} stores point {np.asarray(end.y).tolist()}, image is {img.tolist()}")
    for prev, it in zip(items, items[1:]):
        if it.x > prev.x:
            d = math.pow(it.x - prev.x, 1.0 / N)
            if not (abs(it.delta - d) <= 1e-12 * d):
                msgs.append(f"{where}: item x={it.x!r} stores length {it.delta!r}, (x-x_left)^(1/N)={d!r}")
    return msgs


class MomentVisitor:
    """Applies a state oracle at every observable moment of an execution:
    after each DoGlobalIteration(1) from outside, inside every OnEndIteration callback, and - on a twin
    execution that uses Solve() over the same answers - inside OnEndIteration / OnMethodStop and on the
    returned Solution."""

    solve_twin = True
    fault_twin = False

    def __init__(self):
        self.acc = dict(moments=0, callback_moments=0, solve_twins=0, nontrivial_runs=0)
        self.run = None

    # -- to override
    def oracle(self, run, snap, where):
        return []

    def nontrivial(self, run):
        return True

    # -- plumbing
    def listeners(self, cfg):
        from mc.env import Recorder
        self.cb_msgs = []
        return [Recorder(on_iter=self._on_iter, on_stop=self._on_stop)]

    new_from = 1

    def _moment(self, where):
        run = self.run
        if run is None or not run.problem.log or len(run.problem.log) < self.new_from:
            return
        self.acc["callback_moments"] += 1
        self.cb_msgs += self.oracle(run, Snapshot(run.solver), where)

    def _on_iter(self, pts, sol):
        self._moment("inside OnEndIteration")

    def _on_stop(self, sd, sol, status):
        self._moment("inside OnMethodStop")

    def begin(self, run, cfg):
        if self.run is not None:
            self.acc["nontrivial_runs"] += int(bool(self.nontrivial(self.run)))
        self.run = run
        self.cfg = cfg
        self.cb_msgs = []

    def node(self, run, j, new):
        msgs, self.cb_msgs = self.cb_msgs, []
        if not new:
            return []
        self.acc["moments"] += 1
        return msgs + self.oracle(run, Snapshot(run.solver), f"after iteration {j}")

    def leaf(self, run):
        if not self.solve_twin or getattr(self, "horizon_stop", None):
            return []
        if getattr(self, "new_from", 1) > 1 and len(run.problem.log) > 24 and self.new_from % 8:
            return []      # long deviation runs: the Solve twin (same answers through Solve) only when the last
                           # deviation sits at a multiple of 8
        from mc import tree
        n = len(run.problem.log)
        answers = [v for _, v in run.problem.log]
        cfg = dict(self.cfg, eps=0.0, itersLimit=n)
        keep = self.run
        twin = tree.make_run(cfg, lambda k, y: answers[k - 1], listeners=self.listeners(cfg))
        self.run = twin
        keep_from, self.new_from = self.new_from, 1
        msgs = []
        try:
            sol = twin.solve()
            msgs += [m + " (during Solve)" for m in self.cb_msgs]
            msgs += [m + " (returned Solution)" for m in self.oracle(twin, Snapshot(twin.solver), "after Solve")]
            if sol is not twin.solver.GetResults():
                pass
        except BaseException as e:
            msgs.append(f"Solve raised {type(e).__name__}: {e}")
        self.acc["solve_twins"] += 1
        if self.fault_twin and n >= 2 and not msgs:
            # the same answers through Solve with the LAST evaluation failing: the state must be that of n-1 trials
            def failing(k, y):
                if k == n:
                    raise RuntimeError("injected objective failure")
                return answers[k - 1]
            twin2 = tree.make_run(dict(self.cfg, eps=0.0, itersLimit=n), failing, listeners=self.listeners(cfg))
            self.run = twin2
            try:
                twin2.solve()
                msgs += [m + " (Solve with a failed evaluation)" for m in self.cb_msgs]
                msgs += [m + f" (after Solve whose evaluation {n} failed)"
                         for m in self.oracle(twin2, Snapshot(twin2.solver), "after Solve")]
            except BaseException as e:
                msgs.append(f"Solve raised {type(e).__name__}: {e} although the failure happened inside the objective")
            self.acc["fault_twins"] = self.acc.get("fault_twins", 0) + 1
        self.run = keep
        self.new_from = keep_from
        self.cb_msgs = []
        return msgs

    def summary(self):
        if self.run is not None:
            self.acc["nontrivial_runs"] += int(bool(self.nontrivial(self.run)))
            self.run = None
        return self.acc

"""Canonical digests of small object graphs (numpy aware: dtype, shape and bytes) for state merging.
Used only to merge states, never as an oracle."""
import hashlib

import numpy as np


def canon(o, depth=0):
    if isinstance(o, np.ndarray):
        if o.dtype == object:
            return ("nd-object", o.shape, tuple(canon(v, depth + 1) for v in o.ravel().tolist()))
        b = o.tobytes()
        return ("nd", str(o.dtype), o.shape, b if len(b) <= 64 else hashlib.sha1(b).hexdigest())
    if isinstance(o, (np.floating, float)):
        return ("f", type(o).__name__, float(o).hex())
    if isinstance(o, (np.integer,)):
        return ("i", type(o).__name__, int(o))
    if isinstance(o, (bool, int, str, bytes)) or o is None:
        return (type(o).__name__, o)
    if isinstance(o, (list, tuple)):
        return (type(o).__name__, tuple(canon(v, depth + 1) for v in o))
    if isinstance(o, dict):
        return ("dict", tuple(sorted((str(k), canon(v, depth + 1)) for k, v in o.items())))
    if hasattr(o, "__dict__") and depth < 6:
        return (type(o).__name__, canon(vars(o), depth + 1))
    return ("repr", repr(o))


def digest(o):
    return hashlib.sha1(repr(canon(o)).encode()).hexdigest()

"""Stateless, replay-based explorers of the solver as a transition system whose only input is
the value the objective returns.

* answer tree: every sequence over a finite value alphabet up to a depth, every node checked once
* deviation bounded: a default environment with every placement of <= b replaced answers within a horizon

A visitor supplies the oracle:   visitor.begin(run, cfg)           fresh execution starts
                                 visitor.node(run, j, new) -> msgs  after trial j; new = first visit of this node
                                 visitor.leaf(run) -> msgs           end of the execution
"""
from __future__ import annotations

import itertools

from mc.env import SolverRun, scripted


def make_run(cfg, answer, **kw):
    from mc.envs import bounds_of
    lo, up = bounds_of(cfg)
    return SolverRun(N=cfg["N"], lower=lo, upper=up, r=cfg.get("r", 2.0), eps=cfg.get("eps", 1e-30),
                     itersLimit=cfg.get("itersLimit", 10 ** 6), answer=answer, density=cfg.get("density"),
                     refine=cfg.get("refine", False), fresh_holder=(True if cfg.get("holder") == "fresh" else ("zerod" if cfg.get("holder") == "zerod" else False)),
                     other=tuple(cfg["other"]) if cfg.get("other") else None, int_bounds=cfg.get("box") == "Z",
                     constraints=int(cfg.get("constraints", 0)), discrete=int(cfg.get("discrete", 0)), probe=bool(cfg.get("probe")),
                     start_point=bool(cfg.get("startPoint")), spell=cfg.get("spell"), prelude=cfg.get("prelude"), fail_at=cfg.get("fail_at"), **kw)


def _horizon(run, cfg):
    """the step raised because doubles cannot resolve the interval any more (C03 known finding)"""
    from mc.monitors import resolution_horizon
    try:
        return resolution_horizon(run, cfg)
    except Exception:
        return False


def _listeners(visitor, cfg):
    ls = list(visitor.listeners(cfg)) if hasattr(visitor, "listeners") else []
    if cfg.get("console"):
        # a shipped console listener rides along (its output is swallowed by the harness)
        from iOpt.method.listener import ConsoleFullOutputListener
        ls.append(ConsoleFullOutputListener(mode=cfg["console"], iters=3))
    if cfg.get("peek"):
        ls.append(Peeker())
    return ls


class Peeker:
    """a read-only listener that looks at the search information the way a progress display would: it starts walking it
    and stops early, and asks which interval covers a coordinate it was just told about"""

    def BeforeMethodStart(self, method=None, *a):
        self.sd = getattr(method, "searchData", None)

    def OnEndIteration(self, newPoints=None, solution=None, *a):
        sd = getattr(self, "sd", None)
        if sd is None:
            return
        for k, item in enumerate(sd):
            if k >= 1:
                break
        for p in (newPoints or [])[:1]:
            sd.FindDataItemByOneDimensionalPoint(p.GetX())

    def OnMethodStop(self, searchData=None, solution=None, *a):
        if searchData is not None:
            for k, item in enumerate(searchData):
                if k >= 2:
                    break

    def OnRefrash(self, *a):
        pass


def _first_new_depth(prefix):
    """depth of the first node that no lexicographically earlier block has visited"""
    q = len(prefix)
    tz = 0
    for c in reversed(prefix):
        if c == 0:
            tz += 1
        else:
            break
    if tz == q:
        return 1
    return max(1, q - tz)


def tree_tasks(cfg, alphabet, depth, split=2, **extra):
    split = min(split, depth)
    for p in itertools.product(range(len(alphabet)), repeat=split):
        t = dict(cfg=cfg, alphabet=list(alphabet), depth=depth, prefix=list(p))
        t.update(extra)
        yield t


def run_tree_block(task, visitor):
    """all leaves below task['prefix'], lexicographic; returns counters and violation records"""
    cfg, alphabet, depth, prefix = task["cfg"], task["alphabet"], task["depth"], tuple(task["prefix"])
    nalph = len(alphabet)
    batch = int(task.get("batch", 1))
    stats = dict(runs=0, nodes=0, trials=0)
    viol = []
    first = _first_new_depth(prefix)
    prev = None
    for tail in itertools.product(range(nalph), repeat=depth - len(prefix)):
        leaf = prefix + tail
        if prev is None:
            new_from = first
        else:
            c = 0
            while leaf[c] == prev[c]:
                c += 1
            new_from = c + 1
        prev = leaf
        run = make_run(cfg, scripted(leaf, alphabet), listeners=_listeners(visitor, cfg))
        visitor.begin(run, cfg)
        visitor.new_from = new_from
        stats["runs"] += 1
        dead = False
        j = 0
        while j < depth:
            k = min(batch, depth - j)      # DoGlobalIteration(k): the observable moments are the batch ends
            try:
                made = run.step(k)
                if made is not None and made < k:
                    k = made       # the injected one-off failure ended the call early: a moment of its own
            except BaseException as e:   # the step-wise API must not raise for a well-behaved objective
                if _horizon(run, cfg):
                    stats["horizon_stops"] = stats.get("horizon_stops", 0) + 1
                elif j + k >= new_from:
                    viol.append(dict(driver="tree", cfg=cfg, alphabet=alphabet, choices=list(leaf[:j + k]), batch=batch,
                                     message=f"DoGlobalIteration({k}) raised {type(e).__name__}: {e} after trial {j}",
                                     sig=dict(kind="step_raises")))
                dead = True
                break
            j += k
            stats["trials"] += k
            new = j >= new_from
            if new:
                stats["nodes"] += min(k, j - new_from + 1)
            msgs = visitor.node(run, j, new)
            for m in msgs or ():
                if cfg.get("fail_at"):
                    # the injected failure shortens one call: the replay needs the whole script and the moment to stop at
                    viol.append(dict(driver="tree", cfg=cfg, alphabet=alphabet, choices=list(leaf), upto=j, batch=batch,
                                     message=m, sig=dict(kind="node")))
                    continue
                viol.append(dict(driver="tree", cfg=cfg, alphabet=alphabet, choices=list(leaf[:j]), batch=batch, message=m,
                                 sig=dict(kind="node")))
        if not dead:
            for m in visitor.leaf(run) or ():
                viol.append(dict(driver="tree", cfg=cfg, alphabet=alphabet, choices=list(leaf), batch=batch, message=m,
                                 sig=dict(kind="leaf")))
        if len(viol) > 50:
            break
    return stats, viol


def replay_tree(rec, visitor):
    cfg, alphabet, choices = rec["cfg"], rec["alphabet"], rec["choices"]
    batch = int(rec.get("batch", 1))
    run = make_run(cfg, scripted(choices, alphabet), listeners=_listeners(visitor, cfg))
    visitor.begin(run, cfg)
    msgs = []
    j = 0
    while j < len(choices):
        k = min(batch, len(choices) - j)
        try:
            made = run.step(k)
            if made is not None and made < k:
                k = made
        except BaseException as e:
            if not _horizon(run, cfg):
                msgs.append(f"DoGlobalIteration({k}) raised {type(e).__name__}: {e} after trial {j}")
            return msgs
        j += k
        msgs += list(visitor.node(run, j, True) or ())
        if rec.get("upto") is not None and j >= rec["upto"]:
            return msgs
    msgs += list(visitor.leaf(run) or ())
    return msgs


# ---------------------------------------------------------------- deviation bounded

def deviation_sets(h, nalt, b, start=1):
    """every placement of <= b deviations at positions start..h, each to one of nalt alternatives"""
    yield ()
    pos = range(start, h + 1)
    for nb in range(1, b + 1):
        for where in itertools.combinations(pos, nb):
            for alts in itertools.product(range(nalt), repeat=nb):
                yield tuple(zip(where, alts))


def dev_answer(default_fn, alts, dev):
    d = dict(dev)

    def answer(k, y):
        if k in d:
            a = alts[d[k]]
            return a(k, y) if callable(a) else a
        return default_fn(k, y)
    return answer


def run_dev(cfg, default_fn, alts, dev, h, visitor, batch=1, refine_at=None, solve_at=None):
    """one complete execution of h trials in DoGlobalIteration(batch) calls; nodes after the last deviation are new"""
    run = make_run(cfg, dev_answer(default_fn, alts, dev), listeners=_listeners(visitor, cfg))
    visitor.begin(run, cfg)
    new_from = max([p for p, _ in dev], default=1)
    visitor.new_from = new_from
    msgs_all = []
    nodes = 0
    j = 0
    while j < h:
        k = min(batch, h - j)
        try:
            made = run.step(k)
            if made is not None and made < k:
                k = made
        except BaseException as e:
            if _horizon(run, cfg):
                visitor.horizon_stop = j + 1
                for m in visitor.leaf(run) or ():
                    msgs_all.append((j, m))
                return nodes, j, msgs_all
            msgs_all.append((j + k, f"DoGlobalIteration({k}) raised {type(e).__name__}: {e} after trial {j}"))
            return nodes, j, msgs_all
        j += k
        new = j >= new_from
        if new:
            nodes += min(k, j - new_from + 1)
        for m in visitor.node(run, j, new) or ():
            msgs_all.append((j, m))
        if solve_at is not None and j == solve_at:
            # Solve() on a solver whose budget (itersLimit = solve_at) is already used up: no trial may be added, the
            # listeners are told that the method stopped - and the step-wise search goes on afterwards
            try:
                run.solve()
            except BaseException as e:
                msgs_all.append((j, f"Solve raised {type(e).__name__}: {e} after trial {j}"))
                return nodes, j, msgs_all
            if len(run.problem.log) != j:
                msgs_all.append((j, f"Solve on a solver with itersLimit={solve_at} and {j} trials made "
                                    f"{len(run.problem.log) - j} further trials"))
                return nodes, j, msgs_all
        if refine_at is not None and j == refine_at[0]:
            # a local refinement between two global iterations (public step-wise API); the search goes on afterwards
            try:
                run.refine(refine_at[1], lambda y: default_fn(0, y))
            except BaseException as e:
                msgs_all.append((j, f"DoLocalRefinement({refine_at[1]}) raised {type(e).__name__}: {e} after trial {j}"))
                return nodes, j, msgs_all
    for m in visitor.leaf(run) or ():
        msgs_all.append((h, m))
    return nodes, h, msgs_all

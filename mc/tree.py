"""Stateless, replay-based explorers of the solver as a transition system whose only input is
the value the objective returns.

* answer tree: every sequence over a finite value alphabet up to a depth, every node checked once
* deviation bounded: a default environment with every placement of <= b replaced answers within a horizon

A visitor supplies the oracle:   visitor.begin(run, cfg)           fresh execution starts
                                 visitor.node(run, j, new) -> msgs  after trial j; new = first visit of this node
                                 visitor.leaf(run) -> msgs           end of the execution
"""
from __future__ import annotations

import itertools

from mc.env import SolverRun, scripted


def make_run(cfg, answer, **kw):
    from mc.envs import bounds_of
    lo, up = bounds_of(cfg)
    return SolverRun(N=cfg["N"], lower=lo, upper=up, r=cfg.get("r", 2.0), eps=cfg.get("eps", 1e-30),
                     itersLimit=cfg.get("itersLimit", 10 ** 6), answer=answer, density=cfg.get("density"),
                     refine=cfg.get("refine", False), **kw)


def _horizon(run, cfg):
    """the step raised because doubles cannot resolve the interval any more (C03 known finding)"""
    from mc.monitors import resolution_horizon
    try:
        return resolution_horizon(run, cfg)
    except Exception:
        return False


def _listeners(visitor, cfg):
    return visitor.listeners(cfg) if hasattr(visitor, "listeners") else ()


def _first_new_depth(prefix):
    """depth of the first node that no lexicographically earlier block has visited"""
    q = len(prefix)
    tz = 0
    for c in reversed(prefix):
        if c == 0:
            tz += 1
        else:
            break
    if tz == q:
        return 1
    return max(1, q - tz)


def tree_tasks(cfg, alphabet, depth, split=2, **extra):
    split = min(split, depth)
    for p in itertools.product(range(len(alphabet)), repeat=split):
        t = dict(cfg=cfg, alphabet=list(alphabet), depth=depth, prefix=list(p))
        t.update(extra)
        yield t


def run_tree_block(task, visitor):
    """all leaves below task['prefix'], lexicographic; returns counters and violation records"""
    cfg, alphabet, depth, prefix = task["cfg"], task["alphabet"], task["depth"], tuple(task["prefix"])
    k = len(alphabet)
    stats = dict(runs=0, nodes=0, trials=0)
    viol = []
    first = _first_new_depth(prefix)
    prev = None
    for tail in itertools.product(range(k), repeat=depth - len(prefix)):
        leaf = prefix + tail
        if prev is None:
            new_from = first
        else:
            c = 0
            while leaf[c] == prev[c]:
                c += 1
            new_from = c + 1
        prev = leaf
        run = make_run(cfg, scripted(leaf, alphabet), listeners=_listeners(visitor, cfg))
        visitor.begin(run, cfg)
        visitor.new_from = new_from
        stats["runs"] += 1
        dead = False
        for j in range(1, depth + 1):
            try:
                run.step(1)
            except BaseException as e:   # the step-wise API must not raise for a well-behaved objective
                if _horizon(run, cfg):
                    stats["horizon_stops"] = stats.get("horizon_stops", 0) + 1
                elif j >= new_from:
                    viol.append(dict(driver="tree", cfg=cfg, alphabet=alphabet, choices=list(leaf[:j]),
                                     message=f"DoGlobalIteration raised {type(e).__name__}: {e} at trial {j}",
                                     sig=dict(kind="step_raises")))
                dead = True
                break
            stats["trials"] += 1
            new = j >= new_from
            if new:
                stats["nodes"] += 1
            msgs = visitor.node(run, j, new)
            for m in msgs or ():
                viol.append(dict(driver="tree", cfg=cfg, alphabet=alphabet, choices=list(leaf[:j]), message=m,
                                 sig=dict(kind="node")))
        if not dead:
            for m in visitor.leaf(run) or ():
                viol.append(dict(driver="tree", cfg=cfg, alphabet=alphabet, choices=list(leaf), message=m,
                                 sig=dict(kind="leaf")))
        if len(viol) > 50:
            break
    return stats, viol


def replay_tree(rec, visitor):
    cfg, alphabet, choices = rec["cfg"], rec["alphabet"], rec["choices"]
    run = make_run(cfg, scripted(choices, alphabet), listeners=_listeners(visitor, cfg))
    visitor.begin(run, cfg)
    msgs = []
    for j in range(1, len(choices) + 1):
        try:
            run.step(1)
        except BaseException as e:
            if not _horizon(run, cfg):
                msgs.append(f"DoGlobalIteration raised {type(e).__name__}: {e} at trial {j}")
            return msgs
        msgs += list(visitor.node(run, j, True) or ())
    msgs += list(visitor.leaf(run) or ())
    return msgs


# ---------------------------------------------------------------- deviation bounded

def deviation_sets(h, nalt, b, start=1):
    """every placement of <= b deviations at positions start..h, each to one of nalt alternatives"""
    yield ()
    pos = range(start, h + 1)
    for nb in range(1, b + 1):
        for where in itertools.combinations(pos, nb):
            for alts in itertools.product(range(nalt), repeat=nb):
                yield tuple(zip(where, alts))


def dev_answer(default_fn, alts, dev):
    d = dict(dev)

    def answer(k, y):
        if k in d:
            a = alts[d[k]]
            return a(k, y) if callable(a) else a
        return default_fn(k, y)
    return answer


def run_dev(cfg, default_fn, alts, dev, h, visitor):
    """one complete execution of h trials; nodes after the last deviation are new"""
    run = make_run(cfg, dev_answer(default_fn, alts, dev), listeners=_listeners(visitor, cfg))
    visitor.begin(run, cfg)
    new_from = max([p for p, _ in dev], default=1)
    visitor.new_from = new_from
    msgs_all = []
    nodes = 0
    for j in range(1, h + 1):
        try:
            run.step(1)
        except BaseException as e:
            if _horizon(run, cfg):
                visitor.horizon_stop = j
                for m in visitor.leaf(run) or ():
                    msgs_all.append((j - 1, m))
                return nodes, j - 1, msgs_all
            msgs_all.append((j, f"DoGlobalIteration raised {type(e).__name__}: {e} at trial {j}"))
            return nodes, j - 1, msgs_all
        new = j >= new_from
        nodes += new
        for m in visitor.node(run, j, new) or ():
            msgs_all.append((j, m))
    for m in visitor.leaf(run) or ():
        msgs_all.append((h, m))
    return nodes, h, msgs_all

"""Solver runs with a shipped painting listener attached, judged by the oracles of C04 (reported optimum),
C05 (every evaluation inside the box) and C06 (faithful record).  The painters probe the objective when the
method stops; their probes are evaluations of the objective like any other (C05), while the optimum and the
record are compared with the search trials only (the first numberOfGlobalTrials evaluations)."""
from __future__ import annotations

import contextlib
import io
import shutil
import tempfile

import numpy as np

from mc.env import EnvProblem, Snapshot, box, LATTICE_BOXES
from mc.monitors import check_optimum, check_record

from iOpt.solver import Solver
from iOpt.solver_parametrs import SolverParameters
from iOpt.evolvent.evolvent import Evolvent
from iOpt.method import listener as L

PAINTERS = {
    # name -> (dimension, factory(directory))
    "static1d": (1, lambda d: L.StaticPaintListener("a.png", d, indx=0, mode="objective function", isPointsAtBottom=False)),
    "static1d-points": (1, lambda d: L.StaticPaintListener("b.png", d, indx=0, mode="only points", isPointsAtBottom=True)),
    "static1d-interp": (1, lambda d: L.StaticPaintListener("c.png", d, indx=0, mode="interpolation", isPointsAtBottom=False)),
    "anim1d": (1, lambda d: L.AnimationPaintListener("e.png", d, isPointsAtBottom=False, toPaintObjFunc=True)),
    "static1d-section": (2, lambda d: L.StaticPaintListener("f.png", d, indx=1, mode="objective function")),
    "staticnd-lines": (2, lambda d: L.StaticNDPaintListener("g.png", d, varsIndxs=[0, 1], mode="lines layers",
                                                            calc="objective function")),
    "animnd": (2, lambda d: L.AnimationNDPaintListener("h.png", d, varsIndxs=[0, 1], toPaintObjFunc=True)),
    "staticnd-N3": (3, lambda d: L.StaticNDPaintListener("i.png", d, varsIndxs=[0, 2], mode="lines layers",
                                                         calc="objective function")),
}


class _Problem(EnvProblem):
    """evaluations made while a listener callback is running (painter probes) are logged apart"""

    def __init__(self, *a, **k):
        super().__init__(*a, **k)
        self.in_listener = False
        self.probes = []

    def Calculate(self, point, functionValue):
        if self.in_listener:
            y = np.array(point.floatVariables, dtype=np.double, copy=True)
            v = self.answer(0, y)
            self.probes.append((y, v))
            functionValue.value = v
            return functionValue
        return super().Calculate(point, functionValue)


class _Proxy(L.Listener):
    """forwards every callback to the shipped listener and marks the problem while it runs"""

    def __init__(self, inner, problem):
        self.inner, self.problem = inner, problem

    def _fwd(self, name, *a):
        self.problem.in_listener = True
        try:
            return getattr(self.inner, name)(*a)
        finally:
            self.problem.in_listener = False

    def BeforeMethodStart(self, *a):
        return self._fwd("BeforeMethodStart", *a)

    def OnEndIteration(self, *a):
        return self._fwd("OnEndIteration", *a)

    def OnMethodStop(self, *a):
        return self._fwd("OnMethodStop", *a)

    def OnRefrash(self, *a):
        return self._fwd("OnRefrash", *a)


def tasks(thorough):
    out = []
    boxes1 = list(LATTICE_BOXES) + ["B0", "B1", "B3"]
    for nm in ("static1d", "anim1d"):
        for bx in boxes1:
            out.append(dict(painter=nm, N=1, box=bx))
    for nm in ("static1d-points", "static1d-interp"):
        for bx in ("B1", "L:-3.0:0.1"):
            out.append(dict(painter=nm, N=1, box=bx))
    for nm in ("static1d-section", "staticnd-lines", "animnd"):
        for bx in ("B1", "B2", "D", "E") + (("B3", "M:-3.0:0.1:0.3:7.7") if thorough else ()):
            out.append(dict(painter=nm, N=2, box=bx))
    for bx in ("B1", "D"):
        out.append(dict(painter="staticnd-N3", N=3, box=bx))
    return out


def case(task):
    """-> dict(c04=[...], c05=[...], c06=[...], evals=int, probes=int)"""
    import matplotlib.pyplot as plt
    nm, N, bx = task["painter"], task["N"], task["box"]
    lo, up = box(bx, N)
    lo_a, up_a = np.array(lo, dtype=float), np.array(up, dtype=float)
    w = up_a - lo_a
    f = lambda k, y: float(np.sum(np.abs((np.asarray(y) - lo_a) / w - 0.31)) + 0.1 * np.sum(np.sin(9.0 * (np.asarray(y) - lo_a) / w)))
    p = _Problem(N, lo, up, f)
    d = tempfile.mkdtemp(prefix="paint-")
    tag = f"painter {nm}, N={N}, box={bx}"
    out = dict(c04=[], c05=[], c06=[], evals=0, probes=0)
    try:
        with contextlib.redirect_stdout(io.StringIO()):
            s = Solver(p, SolverParameters(eps=0.02 if N == 1 else 0.08, r=2.5, itersLimit=40 if N < 3 else 30))
            s.AddListener(_Proxy(PAINTERS[nm][1](d), p))
            try:
                sol = s.Solve()
            except BaseException as e:
                msg = f"{tag}: Solve raised {type(e).__name__}: {e}"
                return dict(out, c04=[msg], c05=[msg], c06=[msg])
    finally:
        plt.close("all")
        shutil.rmtree(d, ignore_errors=True)
    n = sol.numberOfGlobalTrials
    out["evals"] = len(p.log) + len(p.probes)
    out["probes"] = len(p.probes)
    for what, lst in (("search trial", p.log), ("objective evaluation made by the painter", p.probes)):
        for i, (y, v) in enumerate(lst):
            if np.any(y < lo_a) or np.any(y > up_a):
                out["c05"].append(f"{tag}: {what} {i + 1} of {len(lst)} at {y.tolist()} lies outside the box [{lo}, {up}]")
                break
    bp = np.array(sol.bestTrials[0].point.floatVariables, dtype=float)
    if np.any(bp < lo_a) or np.any(bp > up_a):
        out["c05"].append(f"{tag}: returned point {bp.tolist()} outside the box")
    snap = Snapshot(s)
    trials = p.log
    out["c04"] = [f"{tag}: {m}" for m in check_optimum(snap, trials, "returned Solution after the painter ran")]
    ev = Evolvent(p.lowerBoundOfFloatVariables, p.upperBoundOfFloatVariables, N, 10)
    out["c06"] = [f"{tag}: {m}" for m in check_record(snap, trials, N, ev, "after Solve with the painter attached")]
    return out

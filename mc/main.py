import sys
from mc.common import main

if __name__ == "__main__":
    sys.exit(main())

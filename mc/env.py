"""The environment side of the closed system: objectives whose answers the explorer owns,
solver harness with per-step snapshots, recording listener."""
from __future__ import annotations

import math

import numpy as np

from mc.common import quiet

from iOpt.problem import Problem
from iOpt.solver import Solver
from iOpt.solver_parametrs import SolverParameters
from iOpt.method.listener import Listener
from iOpt.evolvent.evolvent import Evolvent

# boxes used by all solver checks (DESIGN section 2)
def box(name, N):
    if name == "B0":
        return [0.0] * N, [1.0] * N
    if name == "B1":
        return [-2.2] * N, [1.8] * N
    if name == "B2":
        return [1e-3 * (i + 1) for i in range(N)], [7.0 + i for i in range(N)]
    if name == "B3":
        return [-1e6] * N, [-1e6 + 3.0] * N
    if name == "B4":      # a unit box ten orders of magnitude from the origin (relative width 1e-10)
        return [1e10] * N, [1e10 + 1.0] * N
    if name == "B0c":     # the unit cube centred at the origin (symmetric: -0.0 / +0.0 coordinates)
        return [-0.5] * N, [0.5] * N
    if name == "S":       # some axes symmetric about the origin, others not
        lows = [-1.0, 0.0, -2.0, 1.0, -3.0]
        ups = [1.0, 4.0, 2.0, 2.0, 3.0]
        return lows[:N], ups[:N]
    if name == "F":       # first and last side equal, the ones in between different
        lows = [0.0, -1.0, 0.0, -1.0, 0.0]
        ups = [2.0, 0.5, 2.0, 0.5, 2.0]
        if N == 4:
            lows, ups = [0.0, -1.0, 3.0, 0.0], [2.0, 0.5, 3.25, 2.0]
        return lows[:N], ups[:N]
    if name == "T":       # tiny sides (1e-6 .. 5e-6) next to the origin
        return [2e-7] * N, [2e-7 + 1e-6 * (i + 1) for i in range(N)]
    if name == "U":       # sides of a few 1e-9, symmetric about the origin
        return [-1e-9 * (i + 1) for i in range(N)], [1e-9 * (i + 1) for i in range(N)]
    if name == "E":       # equal side lengths, different offsets per axis (a "cube" only by its widths)
        return [2.0 * i for i in range(N)], [2.0 * i + 1.0 for i in range(N)]
    if name == "D":       # bounds that are not ascending over the coordinates, very different lower bounds
        lows = [2.0, -1.0, -3.0, 0.5, -7.0]
        ups = [3.0, 5.0, -2.5, 4.5, -1.0]
        return lows[:N], ups[:N]
    if name == "Z":       # integer-typed bounds with an odd sum: Python ints, as a user would write them
        return [0] * N, [3] * N
    if name == "Zh":      # whole-number lower bounds typed as ints next to fractional upper bounds (mixed types)
        return [0] * N, [0.5, 1.5, 2.5, 0.75, 1.25][:N]
    if name.startswith("I:"):   # "I:m" - the box whose 2^m cells per axis are centred at the integers 0..2^m-1
        mm = int(name[2:])
        return [-0.5] * N, [2.0 ** mm - 0.5] * N
    if name.startswith("L:"):      # "L:lo:hi" - the same interval on every axis (lattice of decimal end points)
        _, a, b = name.split(":")
        return [float(a)] * N, [float(b)] * N
    if name.startswith("M:"):      # "M:lo0:hi0:lo1:hi1" - two intervals alternating over the axes
        v = [float(t) for t in name.split(":")[1:]]
        return [v[2 * (i % 2)] for i in range(N)], [v[2 * (i % 2) + 1] for i in range(N)]
    raise KeyError(name)


def n1_bounds(name):
    """bounds of a one-dimensional box as the user might type them: "Z@int64" / "Z@int32" (integer arrays),
    "Z@list" (lists of Python ints), "Zc@int32" (-1..1, even sum); any other name: float64 arrays.
    Returns (lower as floats, upper as floats, lower object, upper object)"""
    base, _, how = name.partition("@")
    lo, up = ([-1], [1]) if base == "Zc" else box(base, 1)
    if how in ("int64", "int32"):
        a, b = np.array([int(lo[0])], dtype=how), np.array([int(up[0])], dtype=how)
    elif how == "list":
        a, b = [int(lo[0])], [int(up[0])]
    else:
        a, b = np.array(lo, dtype=np.double), np.array(up, dtype=np.double)
    return [float(lo[0])], [float(up[0])], a, b


N1_EXTRA = ("Z@int64", "Z@list", "Zc@int32", "Z@int32", "E", "D", "S", "T", "U", "B4")
BOXES = ("B0", "B1", "B2", "B3")
INT_BOXES = ("Z",)
# end points whose differences and products are not exactly representable: the cube-to-box map rounds
ENDS = (-3.0, -2.8, -1.1, -0.7, 0.1, 0.3, 0.6, 1.3, 7.7)
LATTICE_BOXES = tuple(f"L:{a}:{b}" for i, a in enumerate(ENDS) for b in ENDS[i + 1:])


from iOpt.trial import FunctionType


class Fault(Exception):
    pass


class EnvProblem(Problem):
    """Objective = environment.  answer(k, y) is asked for the k-th evaluation attempt (1-based)
    and may raise.  Every successful evaluation is logged as (y copy, value)."""

    def __init__(self, N, lower, upper, answer, fresh_holder=False, int_bounds=False, constraints=0, discrete=0):
        super().__init__()
        # declared discrete parameters (this solver searches the float variables only; the curve dimension stays N)
        self.numberOfDisreteVariables = discrete
        if discrete:
            self.discreteVariableNames = np.array([f"d{i}" for i in range(discrete)], dtype=str)
            self.discreteVariableValues = [["a", "b"] for _ in range(discrete)]
        self.fresh_holder = fresh_holder   # return a new FunctionValue instead of filling the supplied one
        self.numberOfFloatVariables = N
        self.numberOfObjectives = 1
        self.numberOfConstraints = constraints     # declared constraints (the AGP solver of this version evaluates the objective only)
        self.floatVariableNames = np.array([f"x{i}" for i in range(N)], dtype=str)
        self.lowerBoundOfFloatVariables = np.array(lower, dtype=np.double)
        self.upperBoundOfFloatVariables = np.array(upper, dtype=np.double)
        self.spell = None
        if int_bounds:      # bounds written as integers by the user (integer-typed arrays)
            self.lowerBoundOfFloatVariables = np.array([int(v) for v in lower], dtype=np.int64)
            self.upperBoundOfFloatVariables = np.array([int(v) for v in upper], dtype=np.int64)
        self.answer = answer
        self.calls = 0
        self.log = []
        self._lower0, self._upper0 = list(lower), list(upper)
        self.attempts = []   # every y asked, including failed ones
        self.local_fn = None     # objective used while the harness runs a local refinement (does not consume answers)
        self.in_local = False
        self.local_log = []

    def respell(self, how):
        """the same box written the way another user would write it: 'readonly' (float arrays that refuse writes),
        'tuple' (tuples of Python floats), 'list' (plain lists), 'column' (a non-contiguous view of a 2-D array)"""
        lo, up = [float(v) for v in self._lower0], [float(v) for v in self._upper0]
        self.spell = how
        if how == "readonly":
            a, b = np.array(lo, dtype=np.double), np.array(up, dtype=np.double)
            a.setflags(write=False)
            b.setflags(write=False)
        elif how == "tuple":
            a, b = tuple(lo), tuple(up)
        elif how == "list":
            a, b = list(lo), list(up)
        elif how == "intlist":     # whole-number bounds written as plain Python ints
            a, b = [int(v) for v in lo], [int(v) for v in up]
            assert a == lo and b == up, "intlist needs whole-number bounds"
        elif how == "column":
            m = np.array([lo, up, lo], dtype=np.double).T.copy()      # columns of a (N, 3) table: strided views
            a, b = m[:, 0], m[:, 1]
        else:
            raise KeyError(how)
        self.lowerBoundOfFloatVariables, self.upperBoundOfFloatVariables = a, b

    def Calculate(self, point, functionValue):
        if getattr(self, "fail_next", False):
            # the objective fails once (a licence server that was down, a file not yet there): nothing is answered
            self.fail_next = False
            self.attempts.append(np.array(point.floatVariables, dtype=np.double, copy=True))
            raise RuntimeError("objective not available")
        if getattr(self, "fail_at", None) and not self.in_local and self.calls + 1 == self.fail_at:
            # the k-th evaluation fails once; asked again it answers
            self.fail_at = None
            self.failed_once = True
            self.attempts.append(np.array(point.floatVariables, dtype=np.double, copy=True))
            raise RuntimeError("objective not available")
        if self.in_local:
            y = np.array(point.floatVariables, dtype=np.double, copy=True)
            v = self.local_fn(y)
            self.local_log.append((y, v))
            functionValue.value = v
            return functionValue
        self.calls += 1
        y = np.array(point.floatVariables, dtype=np.double, copy=True)
        self.attempts.append(y)
        v = self.answer(self.calls, y)
        self.log.append((y, v))
        if self.numberOfConstraints and getattr(functionValue, "type", None) == FunctionType.CONSTRAINT:
            # a Problem with constraints dispatches on the holder's type; this solver only ever asks for the objective,
            # so a holder re-typed on the way here gets the constraint's value and the oracles see the difference
            v = 7.25
        if self.fresh_holder == "zerod":
            # the value stored the way numpy code often leaves it: a 0-d array (np.squeeze / np.asarray of a result)
            functionValue.value = np.array(v, dtype=np.double)
            return functionValue
        if self.fresh_holder:
            from iOpt.trial import FunctionValue
            out = FunctionValue(functionValue.type, functionValue.functionID)
            out.value = v
            return out
        functionValue.value = v
        return functionValue


def scripted(choices, alphabet, default=None):
    """answer function: k-th evaluation gets alphabet[choices[k-1]]; beyond the script `default`
    (a value, or a callable (k, y) -> value)."""
    def answer(k, y):
        if k <= len(choices):
            return alphabet[choices[k - 1]]
        if callable(default):
            return default(k, y)
        if default is None:
            raise RuntimeError("script exhausted")
        return default
    return answer


class Item:
    __slots__ = ("x", "z", "delta", "y", "fv", "index", "globalR", "obj")

    def __repr__(self):
        return f"Item(x={self.x!r}, z={self.z!r}, delta={self.delta!r})"


class Snapshot:
    """Everything the oracles look at, read through the public getters."""

    def __init__(self, solver, max_items=100000):
        sd = solver.searchData
        self.items = []
        self.link_errors = []
        prev = None
        n = 0
        for it in sd:
            I = Item()
            I.obj = it
            I.x = it.GetX()
            I.z = it.GetZ()
            I.delta = it.delta
            I.y = it.GetY().floatVariables
            I.index = it.GetIndex()
            I.globalR = it.globalR
            try:
                I.fv = it.functionValues[0].value
            except Exception as e:  # pragma: no cover
                I.fv = ("ERR", repr(e))
            if it.GetLeft() is not prev:
                self.link_errors.append(f"GetLeft of item x={I.x!r} is not the previous item of the traversal")
            if prev is not None and prev.GetRight() is not it:
                self.link_errors.append(f"GetRight of item before x={I.x!r} is not this item")
            self.items.append(I)
            prev = it
            n += 1
            if n > max_items:
                self.link_errors.append("traversal does not end")
                break
        if prev is not None and prev.GetRight() is not None:
            self.link_errors.append("last item has a right neighbour")
        self.count = sd.GetCount()
        sol = solver.GetResults()
        self.sol = sol
        self.nglobal = sol.numberOfGlobalTrials
        self.nlocal = sol.numberOfLocalTrials
        self.accuracy = sol.solutionAccuracy
        bt = sol.bestTrials[0]
        try:
            self.best_point = np.array(bt.point.floatVariables, dtype=np.double, copy=True)
            self.best_value = bt.functionValues[0].value
        except Exception:
            self.best_point = None
            self.best_value = None


class SolverRun:
    def __init__(self, N=1, lower=None, upper=None, r=2.0, eps=0.01, itersLimit=20000, answer=None,
                 density=None, refine=False, listeners=(), problem=None, fresh_holder=False, other=None,
                 int_bounds=False, constraints=0, probe=False, start_point=False, discrete=0, spell=None, prelude=None, fail_at=None):
        lower = [0.0] * N if lower is None else lower
        upper = [1.0] * N if upper is None else upper
        self.N = N
        self.problem = problem if problem is not None else EnvProblem(N, lower, upper, answer, fresh_holder,
                                                                             int_bounds, constraints, discrete)
        self.probe = probe      # read-only queries of solver.evolvent between the calls
        kw = dict(eps=eps, r=r, itersLimit=itersLimit, refineSolution=refine)
        if spell in ("readonly", "tuple", "list", "column", "intlist") and problem is None:
            self.problem.respell(spell)
        elif spell == "npscalar":
            # the same parameter values as numpy scalars / Python ints, as they come out of a configuration table
            kw = dict(eps=np.float64(eps), r=np.float64(r) if r != int(r) else int(r), itersLimit=np.int64(itersLimit),
                      refineSolution=np.bool_(refine))
        if density is not None:
            kw["evolventDensity"] = density
        if start_point:
            # SolverParameters.startPoint: a user-supplied start point (not a cell centre); the first trial of the method is
            # the image of x = 0.5 by the statement of C02 whatever this is
            from iOpt.trial import Point
            lo_ = np.array(lower, dtype=float)
            kw["startPoint"] = Point(lo_ + (np.array(upper, dtype=float) - lo_) * 0.3137, [])
        self.params = SolverParameters(**kw)
        self.density = density if density is not None else 10
        self.out = ""
        self.xlog = []       # curve coordinates of the trials in the order they were made (through a listener)
        # `other` = (dimension, "before" | "after"): an unrelated solver of another dimension, with its own problem and
        # parameters, constructed before / after this one and iterated between this solver's first calls
        self.other = None
        self._other_left = 4
        if other and other[1] == "before":
            self.other = self._make_other(other[0], iterate=True)
        with quiet() as buf:
            self.solver = Solver(self.problem, parameters=self.params)
            self.solver.AddListener(_XLog(self.xlog))
            for l in listeners:
                self.solver.AddListener(l)
        self.out += buf.getvalue()

        if other and other[1] == "after":
            # constructed after this solver; its first iteration comes after this solver's first call
            self.other = self._make_other(other[0], iterate=False)
        # calls a user may make before the first successful iteration, in an order no tutorial uses; whatever each of them
        # does (answer, refuse, raise), the search that follows must be the search of a new solver:
        #   results0  GetResults() before any iteration
        #   refine0   DoLocalRefinement before any global iteration (its evaluations are answered apart from the script)
        #   fail1     the very first objective evaluation raises; the call is simply made again
        #   zero0     DoGlobalIteration(0)
        self.prelude_out = []
        for what in (prelude or ()):
            try:
                if what == "results0":
                    with quiet():
                        self.solver.GetResults()
                elif what == "refine0":
                    self.refine(3, lambda y: 5.0)
                elif what == "zero0":
                    with quiet():
                        self.solver.DoGlobalIteration(0)
                elif what == "fail1":
                    self.problem.fail_next = True
                    with quiet():
                        self.solver.DoGlobalIteration(1)
                else:
                    raise KeyError(what)
                self.prelude_out.append((what, None))
            except KeyError:
                raise
            except BaseException as e:
                self.prelude_out.append((what, type(e).__name__))
            finally:
                self.problem.fail_next = False
        self.problem.fail_at = fail_at
        if prelude and "refine0" in prelude:
            self.problem.local_log = []

    @staticmethod
    def _make_other(N2, iterate):
        p2 = EnvProblem(N2, [-1.0] * N2, [2.0] * N2, lambda k, y: 3.0 + float(np.sum(np.abs(y - 0.3))))
        with quiet():
            s2 = Solver(p2, parameters=SolverParameters(eps=0.05, r=3.0, itersLimit=50))
            if iterate:
                s2.DoGlobalIteration(1)
        return s2

    def _poke_other(self):
        if self.other is not None and self._other_left > 0:
            self._other_left -= 1
            with quiet():
                self.other.DoGlobalIteration(1)

    def step(self, n=1):
        """DoGlobalIteration(n); returns the number of trials made (less than n only when the injected one-off failure
        of cfg `fail_at` ended the call early - the caller sees that moment and simply goes on)"""
        before = self.problem.calls
        made = n
        with quiet() as buf:
            try:
                self.solver.DoGlobalIteration(n)
            except RuntimeError as e:
                if str(e) == "objective not available" and getattr(self.problem, "failed_once", False):
                    self.problem.failed_once = False
                    made = self.problem.calls - before
                else:
                    raise
            finally:
                self.out += buf.getvalue()
        self._poke_other()
        if self.probe:
            p = self.problem
            lo = np.array(p.lowerBoundOfFloatVariables, dtype=float)
            q = lo + (np.array(p.upperBoundOfFloatVariables, dtype=float) - lo) * 0.3137
            with quiet():
                self.solver.evolvent.GetPreimages(np.array(q))
                self.solver.evolvent.GetInverseImage(np.array(q))
                # ... and about points the library itself handed out: the reported optimum's own array and the array of the
                # most recent trial in the search information (read-only queries; the caller passes what it was given)
                try:
                    best = self.solver.GetResults().bestTrials[0].point.floatVariables
                    last = self.solver.searchData.GetLastItem().GetY().floatVariables
                except Exception:
                    best = last = None
                for arr in (best, last):
                    if arr is not None:
                        self.solver.evolvent.GetPreimages(arr)
                        self.solver.evolvent.GetInverseImage(arr)
        return made

    def refine(self, n, local_fn):
        """DoLocalRefinement(n) with the objective answered by local_fn(y) (local evaluations are logged apart)"""
        p = self.problem
        p.local_fn, p.in_local = local_fn, True
        with quiet() as buf:
            try:
                self.solver.DoLocalRefinement(n)
            finally:
                p.in_local = False
                self.out += buf.getvalue()

    def solve(self):
        with quiet() as buf:
            try:
                return self.solver.Solve()
            finally:
                self.out += buf.getvalue()

    def snapshot(self):
        return Snapshot(self.solver)

    def fresh_evolvent(self):
        p = self.problem
        return Evolvent(p.lowerBoundOfFloatVariables, p.upperBoundOfFloatVariables, p.numberOfFloatVariables,
                        self.density)


class _XLog(Listener):
    """harness-internal: remembers the coordinates of the new trials of every iteration call"""

    def __init__(self, sink):
        self.sink = sink

    def BeforeMethodStart(self, method):
        pass

    def OnEndIteration(self, savedNewPoints, solution=None):
        try:
            self.sink.extend(p.GetX() for p in savedNewPoints)
        except Exception:
            self.sink.append(None)

    def OnMethodStop(self, *a, **k):
        pass


class Recorder(Listener):
    """Records every callback with the state visible at that moment."""

    def __init__(self, on_iter=None, on_stop=None, on_start=None):
        self.events = []
        self.on_iter = on_iter
        self.on_stop = on_stop
        self.on_start = on_start

    def BeforeMethodStart(self, method):
        self.events.append(("start",))
        if self.on_start:
            self.on_start(method)

    def OnEndIteration(self, savedNewPoints, solution):
        self.events.append(("iter", [p.GetX() for p in savedNewPoints]))
        if self.on_iter:
            self.on_iter(savedNewPoints, solution)

    def OnMethodStop(self, searchData, solution, status):
        self.events.append(("stop", status))
        if self.on_stop:
            self.on_stop(searchData, solution, status)


def ulp_dist(a, b):
    """number of doubles between a and b (same sign assumed, coarse otherwise)"""
    if a == b:
        return 0
    n = 0
    lo, hi = (a, b) if a < b else (b, a)
    while lo < hi and n < 64:
        lo = math.nextafter(lo, math.inf)
        n += 1
    return n

"""Named default environments (objectives) for the deviation-bounded explorer.  Names keep the
work items picklable; an environment is a function (k, y) -> value of the k-th evaluation."""
from __future__ import annotations

import math

import numpy as np

from mc.env import box


def _unit(cfg):
    lo, up = bounds_of(cfg)
    lo = np.array(lo, dtype=float)
    w = np.array(up, dtype=float) - lo
    return lambda y: (np.asarray(y, dtype=float) - lo) / w


def bench(name):
    """shipped benchmark instance by spec 'Hill:3', 'GKLS:2:5', 'Rastrigin:2' ..."""
    parts = name.split(":")
    fam, args = parts[0], [int(a) for a in parts[1:]]
    if fam == "Hill":
        from iOpt.problems.hill import Hill as C
    elif fam == "Shekel":
        from iOpt.problems.shekel import Shekel as C
    elif fam == "Rastrigin":
        from iOpt.problems.rastrigin import Rastrigin as C
    elif fam == "XSquared":
        from iOpt.problems.xsquared import XSquared as C
    elif fam == "Grishagin":
        from iOpt.problems.grishagin import Grishagin as C
    elif fam == "GKLS":
        from iOpt.problems.GKLS import GKLS as C
    elif fam == "Shekel4":
        from iOpt.problems.shekel4 import Shekel4 as C
    else:
        raise KeyError(name)
    return C(*args)


def bounds_of(cfg):
    if "lower" in cfg:
        return list(cfg["lower"]), list(cfg["upper"])
    env = cfg.get("env", "")
    if env.startswith("bench:"):
        p = bench(env[6:])
        return [float(v) for v in p.lowerBoundOfFloatVariables], [float(v) for v in p.upperBoundOfFloatVariables]
    return box(cfg.get("box", "B0"), cfg["N"])


def make_env(name, cfg):
    from iOpt.trial import Point, FunctionValue
    if name.startswith("bench:"):
        p = bench(name[6:])

        def f(k, y):
            return float(p.Calculate(Point(np.array(y, dtype=np.double), []), FunctionValue()).value)
        return f
    u = _unit(cfg)
    if name == "abs13":
        return lambda k, y: float(np.sum(np.abs(u(y) - 1.0 / 3.0)))
    if name == "const":
        return lambda k, y: 0.5
    if name == "lin":
        return lambda k, y: float(np.sum(u(y)))
    if name == "neglin":
        return lambda k, y: float(-3.0 * np.sum(u(y)))
    if name == "stair":
        return lambda k, y: float(np.sum(np.floor(4.0 * u(y)) / 4.0))
    if name == "quad":
        return lambda k, y: float(np.sum((u(y) - 0.5) ** 2))
    if name == "cos3":      # symmetric about the centre of the box: equal characteristics left and right
        return lambda k, y: float(np.sum(np.cos(3.0 * (4.0 * u(y) - 2.0))))
    if name == "sym":
        return lambda k, y: float(np.sum(np.abs(u(y) - 0.5)))
    if name == "sqrt":      # slopes grow without bound at small scale around u = 0.37
        return lambda k, y: float(np.sum(np.sqrt(np.abs(u(y) - 0.37))))
    if name == "dec":       # a new record at every trial, whatever the point
        return lambda k, y: float(-0.25 * k + 0.1 * np.sum(u(y)))
    if name == "negquad":   # everything below -1
        return lambda k, y: float(-5.0 + np.sum((u(y) - 0.3) ** 2))
    if name == "big":       # magnitudes of 1e6, crossing zero
        return lambda k, y: float(1e6 * np.sum(np.sin(5.0 * u(y)) - 0.2))
    if name == "tiny":      # magnitudes of 1e-6, crossing zero (slopes far below the floor of M)
        return lambda k, y: float(1e-6 * np.sum(np.cos(6.0 * u(y))))
    if name == "sin":
        return lambda k, y: float(np.sum(np.sin(7.0 * u(y)) + 0.3 * u(y)))
    raise KeyError(name)


BENCH12 = ["Hill:3", "Shekel:7", "Rastrigin:1", "Rastrigin:2", "Rastrigin:3", "Grishagin:5", "GKLS:2:1",
           "GKLS:3:4", "GKLS:4:2", "Shekel4:1", "XSquared:2", "Hill:500"]

"""GKLS structure helpers and the polar-lattice cover of the attraction balls.

Inside ball i the implemented cubic depends on x only through s = |x - M_i| and c = <x - M_i, T - M_i>/s
(T the paraboloid vertex).  Each ball is therefore covered on the 2-D (s, c) domain [0, rho_i] x [-A_i, A_i]
with REAL Calculate calls on points constructed in several planes through the axis M_i -> T (the
reduction itself is checked at every evaluated lattice point by comparing the planes).  To be able to
evaluate the ball formula also where a ball sticks out of [-1,1]^n, the evaluations are made on a twin
instance whose public domain attributes are widened after generation; witnesses are re-evaluated on the
untouched instance inside the box."""
from __future__ import annotations

import math

import numpy as np

from iOpt.trial import Point, FunctionValue
from mc.cover import Cover


def make(n, k):
    from iOpt.problems.GKLS import GKLS
    return GKLS(n, k)


def value(p, x):
    return float(p.Calculate(Point(np.array(x, dtype=np.double), []), FunctionValue()).value)


class Structure:
    def __init__(self, n, k):
        self.n, self.k = n, k
        self.p = make(n, k)
        m = self.p.function.GKLS_minima
        self.M = np.array(m.local_min, dtype=float)
        self.rho = np.array(m.rho, dtype=float)
        self.f = np.array(m.f, dtype=float)
        self.T = self.M[0]
        self.nmin = len(self.f)
        self._wide = None

    def wide(self):
        """twin instance with the domain widened (same generated minima)"""
        if self._wide is None:
            w = make(self.n, self.k)
            fn = w.function
            fn.GKLS_domain_left = np.array([-4.0] * self.n)
            fn.GKLS_domain_right = np.array([4.0] * self.n)
            self._wide = w
        return self._wide

    def in_ball(self, x):
        for i in range(1, self.nmin):
            if np.linalg.norm(x - self.M[i]) <= self.rho[i]:
                return i
        return 0

    def frames(self, i, nplanes):
        """unit vector e1 = (T - M_i)/A and nplanes unit vectors orthogonal to it"""
        d = self.T - self.M[i]
        A = float(np.linalg.norm(d))
        e1 = d / A
        out = []
        basis = np.eye(self.n)
        order = np.argsort(np.abs(e1))      # start with the axes most orthogonal to e1
        for j in order:
            v = basis[j] - np.dot(basis[j], e1) * e1
            for u in out:
                v = v - np.dot(v, u) * u
            nv = np.linalg.norm(v)
            if nv > 1e-8:
                out.append(v / nv)
            if len(out) >= nplanes:
                break
        planes = list(out)
        if len(planes) < nplanes:
            planes += [-u for u in out][: nplanes - len(planes)]
        return A, e1, planes


class BallBound:
    """cell-local bounds of the partial derivatives of the cubic in (s, c)"""

    def __init__(self, A, a, rho):
        self.A, self.a, self.rho = A, abs(a), rho

    def __call__(self, a, b):
        return 0.0

    def low(self, a, b, c, v, rad):
        s_hi = b[0]
        rho, A, aa = self.rho, self.A, self.a
        Ls = s_hi * (3 * s_hi * (2 * A / rho ** 2 + 2 * aa / rho ** 3) + 2 * (1 + 4 * A / rho + 3 * aa / rho ** 2))
        Lc = 4 * s_hi ** 2 / rho + 2 * s_hi ** 3 / rho ** 2
        return v - Ls * (b[0] - a[0]) / 2 - Lc * (b[1] - a[1]) / 2


def ball_function(S, i, nplanes, stats):
    A, e1, planes = S.frames(i, nplanes)
    w = S.wide()
    Mi = S.M[i]

    def f(sc):
        s, c = float(sc[0]), float(sc[1])
        ct = max(-1.0, min(1.0, c / A))
        st = math.sqrt(max(0.0, 1 - ct * ct))
        vals = []
        for e2 in planes:
            x = Mi + s * (ct * e1 + st * e2)
            vals.append(value(w, x))
        stats["evals"] += len(vals)
        v0 = vals[0]
        for v in vals[1:]:
            if abs(v - v0) > 1e-9 * max(1.0, abs(v0)):
                stats["plane_mismatch"].append((i, s, c, vals))
                break
        return min(vals)
    return f, A


def cover_ball(S, i, goal, s_from=0.0, strict=False, nplanes=2, resolve=0.0, max_evals=400000):
    """show f >= goal (or > goal) on ball i for s in [s_from, rho_i]; returns dict(witnesses, undecided, evals, ...)"""
    stats = dict(evals=0, plane_mismatch=[])
    f, A = ball_function(S, i, nplanes, stats)
    a = A * A + S.f[0] - S.f[i]
    cov = Cover(f, [0.0, -A], [S.rho[i], A], BallBound(A, a, S.rho[i]), max_evals=max_evals, min_frac=2.0 ** -30)
    wit = cov.clear([s_from, -A], [S.rho[i], A], goal, strict=strict, floor=goal, resolve=resolve)
    return dict(witnesses=[(c.tolist(), v) for c, v in wit], undecided=cov.undecided, cells=cov.leaves,
                evals=stats["evals"], plane_mismatch=stats["plane_mismatch"][:3], capped=cov.capped, A=A)


def lattice_points(n, levels=(-1.0, -0.5, 0.0, 0.5, 1.0)):
    import itertools
    for t in itertools.product(levels, repeat=n):
        yield np.array(t, dtype=float)


class BallBoundG:
    """g(s, c) = (f - f_i)/s^2 is bilinear in (s, c): exact bounds of its partial derivatives"""

    def __init__(self, A, a, rho):
        self.Ls = 2 * A / rho ** 2 + 2 * abs(a) / rho ** 3
        self.rho = rho

    def __call__(self, a, b):
        return 0.0

    def low(self, a, b, c, v, rad):
        Lc = 2 * b[0] / self.rho ** 2 + 4 / self.rho
        return v - self.Ls * (b[0] - a[0]) / 2 - Lc * (b[1] - a[1]) / 2


def basin_cover(S, i, nplanes=2, s_min_frac=1e-4, delta=1e-5):
    """The minimum of basin i is at its centre: f > f_i for s in [s_min, rho_i] (through g = (f - f_i)/s^2 > 0) and
    f >= f_i - delta on the innermost disc.  Returns dict(messages, evals, cells, undecided)."""
    stats = dict(evals=0, plane_mismatch=[])
    f, A = ball_function(S, i, nplanes, stats)
    rho, fi = S.rho[i], S.f[i]
    a = A * A + S.f[0] - fi
    s_min = s_min_frac * rho
    msgs = []

    def g(sc):
        return (f(sc) - fi) / (sc[0] * sc[0])
    cov = Cover(g, [s_min, -A], [rho, A], BallBoundG(A, a, rho), max_evals=200000, min_frac=2.0 ** -30)
    wit = cov.clear([s_min, -A], [rho, A], 0.0, strict=True, floor=0.0, resolve=0.0)
    for c, v in wit[:2]:
        msgs.append(f"GKLS({S.n},{S.k}) basin {i}: at distance {c[0]!r} from the minimiser (axial component {c[1]!r}) the "
                    f"function is {fi + v * c[0] * c[0]!r}, not above the prescribed minimum value {fi!r}")
    cov2 = Cover(f, [0.0, -A], [s_min, A], BallBound(A, a, rho), max_evals=50000, min_frac=2.0 ** -30)
    wit2 = cov2.clear([0.0, -A], [s_min, A], fi - delta, strict=False, floor=fi - delta)
    for c, v in wit2[:2]:
        msgs.append(f"GKLS({S.n},{S.k}) basin {i}: value {v!r} next to the minimiser, below the prescribed minimum {fi!r}")
    for (ii, s, c, vals) in stats["plane_mismatch"][:2]:
        msgs.append(f"GKLS({S.n},{S.k}) basin {ii}: points at the same (distance {s!r}, axial component {c!r}) in different "
                    f"planes have different values {vals}")
    return dict(messages=msgs, evals=stats["evals"], cells=cov.leaves + cov2.leaves,
                undecided=cov.undecided + cov2.undecided, capped=cov.capped or cov2.capped)


def bilinear_lattice(S, i, nplanes=2, ns=12, nc=7):
    """g = (f - f_i)/s^2 must be the bilinear interpolant of its four corner values on the whole (s, c) domain - the
    structural fact the derivative bounds of basin_cover rest on - checked on an ns x nc lattice of real evaluations."""
    stats = dict(evals=0, plane_mismatch=[])
    f, A = ball_function(S, i, nplanes, stats)
    rho, fi = S.rho[i], S.f[i]
    s0 = 1e-3 * rho

    def g(s, c):
        return (f((s, c)) - fi) / (s * s)
    g00, g01, g10, g11 = g(s0, -A), g(s0, A), g(rho, -A), g(rho, A)
    scale = max(abs(g00), abs(g01), abs(g10), abs(g11), 1.0)
    msgs = []
    for a in range(ns + 1):
        for b in range(nc + 1):
            u, w = a / ns, b / nc
            s, c = s0 + u * (rho - s0), -A + w * 2 * A
            e = (1 - u) * ((1 - w) * g00 + w * g01) + u * ((1 - w) * g10 + w * g11)
            v = g(s, c)
            if abs(v - e) > 1e-6 * scale:
                msgs.append(f"GKLS({S.n},{S.k}) basin {i}: (f - f_i)/s^2 at (s={s!r}, c={c!r}) is {v!r}, the cubic splice "
                            f"implies {e!r}")
                if len(msgs) > 2:
                    return msgs, stats["evals"]
    return msgs, stats["evals"]

"""Evolvent machinery shared by C07, C08, C09:

(1) all-cells enumeration for small (N, m) on several boxes,
(2) orientation automaton extracted black-box through GetImage, closed, model-checked with integer
    arithmetic (child bijection, pair automaton for adjacency at every depth),
(3) replay of automaton traces against the implementation (congruence replay on all short prefixes,
    deep replay at the full density m for every (N, m) with N*m <= 50, end zone near x = 0 and x = 1).
"""
from __future__ import annotations

import collections
import itertools
import math

import numpy as np

from iOpt.evolvent.evolvent import Evolvent
from mc.env import box

_EV = {}


def unit_ev(N, m):
    """evolvent on the cube [-1/2, 1/2]^N: images are exact dyadic numbers"""
    k = (N, m)
    if k not in _EV:
        _EV[k] = Evolvent([-0.5] * N, [0.5] * N, N, m)
    return _EV[k]


def make_ev(N, m, bx, via=None):
    """Evolvent on the named box.  via=None: configured by the constructor; via=<other box>: constructed on
    the other box, queried once in both directions, then re-configured with SetBounds - the second public
    way of fixing the box (a property stated for every box must hold whichever way the box was set)."""
    from mc.env import box
    lo, up = box(bx, N)
    if via is None:
        if bx in ("B1", "B2", "D"):
            # the bounds handed over as float arrays which the caller afterwards re-uses for something else
            lo_arr, up_arr = np.array(lo, dtype=np.double), np.array(up, dtype=np.double)
            ev = Evolvent(lo_arr, up_arr, N, m)
            lo_arr += 11.0
            up_arr *= 0.25
            return ev
        return Evolvent(lo, up, N, m)
    lo0, up0 = box(via, N)
    ev = Evolvent(lo0, up0, N, m)
    y = ev.GetImage(0.3)
    ev.GetInverseImage(y)
    ev.SetBounds(lo, up)
    return ev


def query_mix(ev, N, m, lo, up, tag):
    """Queries that must not depend on what the object was asked before: the end points asked twice, and the same x
    asked again after an inverse query; returns messages."""
    msgs = []
    n = 2 ** (N * m)
    first, last = ev.GetImage(0.5 / n), ev.GetImage((n - 0.5) / n)
    for x, ref, name in ((0.0, first, "first"), (1.0, last, "last")):
        for rep in (1, 2, 3):
            y = ev.GetImage(x)
            if not np.array_equal(y, ref):
                msgs.append(f"{tag}: GetImage({x}) asked the {rep}. time returns {y.tolist()}, the {name} cell is {ref.tolist()}")
                break
    lo_f, up_f = np.asarray(lo, dtype=float), np.asarray(up, dtype=float)
    # the same query spelled differently (x as a 0-d array or a numpy scalar), asked of a shallow copy of the object, and
    # of an object built with numpy-integer dimension / density: one curve
    import copy as _copy
    try:
        twin = Evolvent(lo_f.copy(), up_f.copy(), np.uint8(N), np.uint8(m))
    except Exception as e:
        twin = None
        msgs.append(f"{tag}: Evolvent(..., np.uint8({N}), np.uint8({m})) raised {type(e).__name__}: {e}")
    for i in sorted({0, n // 3, n - 1}):
        for x in ((i + 0.3) / n, 1.0, 0.0):
            ref = ev.GetImage(x)
            forms = [("a 0-d array", lambda: ev.GetImage(np.array(x))), ("np.float64", lambda: ev.GetImage(np.float64(x))),
                     ("a shallow copy of the object", lambda: _copy.copy(ev).GetImage(x)),
                     ("the object once more", lambda: ev.GetImage(x))]
            if twin is not None and np.array_equal(np.asarray(ev.lowerBoundOfFloatVariables, dtype=float), lo_f) \
                    and np.array_equal(np.asarray(ev.upperBoundOfFloatVariables, dtype=float), up_f):
                forms.append(("an object built with np.uint8 dimension and density", lambda: twin.GetImage(x)))
            for name, fn in forms:
                try:
                    got = fn()
                except Exception as e:
                    msgs.append(f"{tag}: GetImage({x!r}) asked through {name} raised {type(e).__name__}: {e}")
                    break
                if not np.array_equal(got, ref):
                    msgs.append(f"{tag}: GetImage({x!r}) is {ref.tolist()}, asked through {name} it is {np.asarray(got).tolist()}")
                    break
            if msgs:
                return msgs
    # what the caller got back is the caller's: written over in place, or handed back as the argument of an inverse query,
    # it must not change what the object answers next (and must not be changed by later calls)
    for x in (0.0, 1.0, 0.5 / n, (n // 2 + 0.3) / n):
        y = ev.GetImage(x)
        want = y.copy()
        ev.GetInverseImage(y)
        ev.GetPreimages(y)
        ev.GetImage((n // 3 + 0.5) / n)
        mid = y.copy()                 # read once while the object's last answer was about another x
        ev.GetImage(x)
        if not np.array_equal(mid, want):
            msgs.append(f"{tag}: the array returned by GetImage({x!r}) and handed to the inverse queries reads {mid.tolist()} "
                        f"after GetImage was asked about another x (it was {want.tolist()})")
            return msgs
        if not np.array_equal(y, want):
            msgs.append(f"{tag}: the array returned by GetImage({x!r}) changed after it had been handed to the inverse queries "
                        f"and GetImage was called again ({want.tolist()} -> {y.tolist()})")
            return msgs
        if y.flags.writeable:
            y[...] = 777.0
        again = ev.GetImage(x)
        if not np.array_equal(again, want):
            msgs.append(f"{tag}: after the caller overwrote the array GetImage({x!r}) had returned, GetImage({x!r}) gives "
                        f"{again.tolist()} instead of {want.tolist()}")
            return msgs
    # calls that are refused (or answered with something) because the caller got them wrong - a point with too few / too
    # many coordinates, a NaN coordinate, a box inverted in one coordinate: afterwards the object answers as before
    # (a version that takes the inverted box is given its box again, as a caller who notices would do)
    import warnings as _w
    probe_x = sorted({0.0, 1.0, 0.5 / n, (n // 3 + 0.3) / n, (n - 0.7) / n})
    before = [ev.GetImage(x) for x in probe_x]
    mid = lo_f + (up_f - lo_f) * 0.3
    bad = [list(mid[:N - 1]), list(mid) + [0.3, 0.3], [float("nan")] + list(mid[1:])]
    inv_lo, inv_up = lo_f.copy(), up_f.copy()
    inv_lo[0], inv_up[0] = up_f[0] + 1.0, lo_f[0] - 1.0
    for what in ("short", "long", "nan", "inverted box"):
        with _w.catch_warnings():
            _w.simplefilter("ignore")
            try:
                if what == "inverted box":
                    ev.SetBounds(inv_lo.copy(), inv_up.copy())
                    ev.SetBounds(lo_f.copy(), up_f.copy())
                else:
                    yb = bad[("short", "long", "nan").index(what)]
                    for fn in (ev.GetInverseImage, ev.GetPreimages):
                        try:
                            fn(np.array(yb, dtype=np.double))
                        except Exception:
                            pass
            except Exception:
                pass
        try:
            after = [ev.GetImage(x) for x in probe_x]
        except Exception as e:
            msgs.append(f"{tag}: after a refused / malformed call ({what}) GetImage raised {type(e).__name__}: {e}")
            return msgs
        for x, a_, b_ in zip(probe_x, before, after):
            if not np.array_equal(a_, b_):
                msgs.append(f"{tag}: after a refused / malformed call ({what}) GetImage({x!r}) is {b_.tolist()}, it was {a_.tolist()}")
                return msgs
    if N >= 2 and np.array_equal(lo_f, -up_f):
        # a box symmetric about the origin: a coordinate given as -0.0 is the same point as +0.0
        for ax in range(N):
            base = (lo_f + up_f) / 2 + (up_f - lo_f) * 0.23
            base[ax] = 0.0
            neg = base.copy()
            neg[ax] = -0.0
            a_, b_ = ev.GetInverseImage(base), ev.GetInverseImage(neg)
            if a_ != b_:
                msgs.append(f"{tag}: GetInverseImage gives {a_!r} for {base.tolist()} and {b_!r} for the same point written with "
                            f"-0.0 on axis {ax}")
                break
    for i in sorted({0, 1, n // 3, n // 2, n - 2, n - 1}):
        x = (i + 0.3) / n
        y = ev.GetImage(x)
        keep = y.copy()
        q = lo_f + (up_f - lo_f) * 0.6180339
        ev.GetInverseImage(np.array(q))
        ev.GetPreimages(np.array(q))
        if not np.array_equal(y, keep):
            msgs.append(f"{tag}: the array returned by GetImage({x!r}) was changed by a later inverse query "
                        f"({keep.tolist()} -> {y.tolist()})")
            break
        other = ev.GetImage(((i + n // 2) % n + 0.5) / n)
        ev.GetInverseImage(other)
        y2 = ev.GetImage(x)
        ev.GetPreimages(other)
        y3 = ev.GetImage(x)
        if not (np.array_equal(y, y2) and np.array_equal(y, y3)):
            msgs.append(f"{tag}: GetImage({x!r}) returns {y.tolist()}, but {y2.tolist()} / {y3.tolist()} when asked again after "
                        f"an inverse query")
            break
        # two different x on either side of a subinterval border, asked one after the other
        if i + 1 < n:
            import math
            xa, xb = math.nextafter((i + 1) / n, 0.0), (i + 1) / n
            ya, yb = ev.GetImage(xa), ev.GetImage(xb)
            if np.array_equal(ya, yb) or not np.array_equal(ya, y):
                msgs.append(f"{tag}: GetImage({xa!r}) then GetImage({xb!r}) return {ya.tolist()} and {yb.tolist()} "
                            f"(subintervals {i} and {i + 1}; the image of subinterval {i} is {y.tolist()})")
                break
    return msgs


VIA_PAIRS = [(v, b) for v in ("B0", "B1", "B2", "B3") for b in ("B0", "B1", "B2", "B3") if v != b] + \
            [("Z", b) for b in ("B1", "B2", "D")] + [("B1", "Zh"), ("Z", "Zh")]      # built from Python ints, then re-configured with fractional bounds


def x_of_prefix(N, p):
    """(left end, width) of the subinterval with digit prefix p (base 2^N); exact for N*len(p) <= 52"""
    x, w = 0.0, 1.0
    b = float(2 ** N)
    for d in p:
        w /= b
        x += d * w
    return x, w


def digits_of(N, m, i):
    b = 2 ** N
    out = []
    for _ in range(m):
        out.append(i % b)
        i //= b
    return out[::-1]


def centre_image(N, p):
    """image of the centre of the subinterval with prefix p at density len(p), on the unit cube"""
    if not p:
        return np.zeros(N)
    x, w = x_of_prefix(N, p)
    return unit_ev(N, len(p)).GetImage(x + w / 2)


class ObservationError(Exception):
    pass


def table(N, p):
    """observable behaviour of prefix p: digit -> child cell offset in {+-1}^N (difference of exact dyadics)"""
    base = centre_image(N, p)
    k = len(p) + 1
    out = []
    for d in range(2 ** N):
        y = centre_image(N, list(p) + [d])
        o = (y - base) * 2.0 ** (k + 1)
        oi = np.rint(o).astype(int)
        if not (np.all(o == oi) and np.all(np.abs(oi) == 1)):
            raise ObservationError(f"N={N}: child {d} of prefix {list(p)} is not at a half-cell offset from its parent "
                                   f"centre: offset*2^{k + 1} = {o.tolist()}")
        out.append(tuple(int(v) for v in oi))
    return tuple(out)


def sig(N, p, levels):
    t = table(N, p)
    if levels <= 1:
        return t
    return (t, tuple(table(N, list(p) + [d]) for d in range(2 ** N)))


class Automaton:
    def __init__(self, N, levels):
        self.N = N
        self.levels = levels
        self.ids = {}        # signature -> state id
        self.offs = []       # state id -> digit -> offset tuple
        self.witness = []    # state id -> shortest prefix
        self.trans = {}      # (state id, digit) -> state id
        self.images = 0

    def nstates(self):
        return len(self.offs)

    def run(self, digits, start=0):
        """-> (Y, state): Y = cell centre * 2^(k+1) as odd integers, k = len(digits)"""
        N = self.N
        Y = [0] * N
        s = start
        for d in digits:
            o = self.offs[s][d]
            Y = [2 * a + b for a, b in zip(Y, o)]
            s = self.trans[(s, d)]
        return Y, s

    def cell(self, digits):
        Y, s = self.run(digits)
        k = len(digits)
        return tuple((a + 2 ** k - 1) // 2 for a in Y), s


def extract(N, levels=1, max_states=400):
    """BFS over digit prefixes; a prefix whose signature was seen is merged; closure = no new state"""
    A = Automaton(N, levels)
    B = 2 ** N

    def sid(p):
        s = sig(N, p, levels)
        A.images += (B + 1) * (1 if levels <= 1 else B + 1)
        if s not in A.ids:
            A.ids[s] = len(A.offs)
            A.offs.append(s if levels <= 1 else s[0])
            A.witness.append(list(p))
            return A.ids[s], True
        return A.ids[s], False

    s0, _ = sid([])
    q = collections.deque([[]])
    while q:
        p = q.popleft()
        s = A.ids[sig(N, p, levels)]
        for d in range(B):
            t, new = sid(p + [d])
            A.trans[(s, d)] = t
            if new:
                q.append(p + [d])
                if len(A.offs) > max_states:
                    raise ObservationError(f"N={N}: more than {max_states} orientation states - the descent is not "
                                           f"finite-state as observed")
    return A


# ------------------------------------------------------------------ model checking the extracted machine

def check_child_bijection(A):
    msgs = []
    full = set(itertools.product((-1, 1), repeat=A.N))
    for s, t in enumerate(A.offs):
        if set(t) != full or len(t) != len(full):
            msgs.append(f"N={A.N}: orientation state {s} (witness prefix {A.witness[s]}): the 2^N children do not map "
                        f"one-to-one onto the 2^N half-cells: {t}")
    return msgs


def check_inside_adjacent(A):
    """consecutive children of one parent are face adjacent (differ in exactly one coordinate)"""
    msgs = []
    for s, t in enumerate(A.offs):
        for d in range(len(t) - 1):
            if sum(a != b for a, b in zip(t[d], t[d + 1])) != 1:
                msgs.append(f"N={A.N}: state {s} (witness {A.witness[s]}): children {d} and {d + 1} are not face-adjacent")
    return msgs


def pair_closure(A):
    """Pair automaton: (a, b, delta) - a follows the last digit, b the digit 0, delta = cell index difference
    between the last cell of the left block and the first cell of the right block.  Invariant: delta is a signed
    unit vector in every reachable pair state => consecutive cells are face-adjacent at every depth."""
    N = A.N
    last = 2 ** N - 1
    seen = {}
    fr = collections.deque()
    for s in range(A.nstates()):
        for d in range(last):
            diff = tuple((b - a) // 2 for a, b in zip(A.offs[s][d], A.offs[s][d + 1]))
            st = (A.trans[(s, d)], A.trans[(s, d + 1)], diff)
            if st not in seen:
                seen[st] = (s, d, ())
                fr.append(st)
    ntr = 0
    bad = []
    while fr:
        st = fr.popleft()
        a, b, diff = st
        if sorted(abs(v) for v in diff) != [0] * (N - 1) + [1]:
            bad.append((st, seen[st]))
            continue
        nd = tuple(2 * dv + (ob - oa) // 2 for dv, oa, ob in zip(diff, A.offs[a][last], A.offs[b][0]))
        nst = (A.trans[(a, last)], A.trans[(b, 0)], nd)
        ntr += 1
        if nst not in seen:
            s, d, tail = seen[st]
            seen[nst] = (s, d, tail + (1,))
            fr.append(nst)
    return len(seen), ntr, bad


def paths_by_level(A, depth):
    """for every level j <= depth and every state reachable in exactly j steps: one digit path"""
    B = 2 ** A.N
    cur = {0: []}
    out = [dict(cur)]
    for j in range(depth):
        nxt = {}
        for s, p in cur.items():
            for d in range(B):
                t = A.trans[(s, d)]
                if t not in nxt:
                    nxt[t] = p + [d]
        cur = nxt
        out.append(dict(cur))
    return out


# ------------------------------------------------------------------ helpers on real boxes

def cell_index(y, lo, up, m, tol=1e-6):
    """integer cell of an image on a general box, or None when y is not a cell centre"""
    lo = np.asarray(lo, dtype=float)
    w = (np.asarray(up, dtype=float) - lo) / 2 ** m
    c = (np.asarray(y, dtype=float) - lo) / w - 0.5
    ci = np.rint(c)
    # a box far from the origin: the image itself carries a rounding error of a few ulp of its magnitude
    mag = float(np.max(np.abs(np.concatenate([lo, np.asarray(up, dtype=float)]))))
    tol = tol + 8.0 * float(np.max(np.spacing(mag) / w))
    if np.abs(c - ci).max() > tol:
        return None
    return tuple(int(v) for v in ci)


def small_configs(limit, include_n1=False):
    out = []
    for N in range(2, 6):
        for m in range(1, 60):
            if N * m <= limit:
                out.append((N, m))
    return out


def deep_configs(limit=50):
    return [(N, m) for N in range(2, 6) for m in range(1, 51) if N * m <= limit]

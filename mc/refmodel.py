"""Boring reference models.  RefAGP is fed the implementation's actual previous trials and
judges the next one (it never predicts a trajectory, so ties and last-bit rounding cannot make
model and code drift apart)."""
from __future__ import annotations

import bisect
import math

INF = float("inf")
RTOL = 1e-9


class RefAGP:
    def __init__(self, N, r):
        self.N = N
        self.r = r
        self.xs = [0.0, 1.0]
        self.zs = [None, None]
        self.M = 1.0
        self.zstar = INF
        self.trials = []
        self.M_hist = []       # M after each trial
        self.m_grew = 0
        self.opt_changed = 0
        # memo of the characteristics: a characteristic is a function of (x_l, x_r, z_l, z_r, M, z*) only, so the list
        # is recomputed from scratch whenever M or z* changed and otherwise only for the two intervals a new trial made
        self._R = None
        self._Rkey = None

    def hold(self, a, b):
        return math.pow(b - a, 1.0 / self.N)

    def add(self, x, z):
        i = bisect.bisect_left(self.xs, x)
        self.xs.insert(i, x)
        self.zs.insert(i, z)
        if self._R is not None:
            # interval i (ending at the old right neighbour) is replaced by intervals i and i+1
            self._R[i - 1:i] = [None, None]
        for j in (i, i + 1):
            zl, zr = self.zs[j - 1], self.zs[j]
            if zl is not None and zr is not None:
                D = self.hold(self.xs[j - 1], self.xs[j])
                if D > 0:
                    m = abs(zr - zl) / D
                    if m > self.M:
                        self.M = m
                        self.m_grew += 1
        if z < self.zstar:
            if self.trials:
                self.opt_changed += 1
            self.zstar = z
        self.trials.append((x, z))
        self.M_hist.append(self.M)

    def char(self, j):
        """characteristic of interval [xs[j-1], xs[j]] with the current M and z*"""
        D = self.hold(self.xs[j - 1], self.xs[j])
        zl, zr = self.zs[j - 1], self.zs[j]
        rM = self.r * self.M
        if zl is not None and zr is not None:
            return D + (zr - zl) ** 2 / (rM * rM * D) - 2 * (zr + zl - 2 * self.zstar) / rM
        z = zr if zl is None else zl
        if z is None:
            return 2 * D
        return 2 * D - 4 * (z - self.zstar) / rM

    def chars(self):
        key = (self.M, self.zstar)
        if self._R is None or self._Rkey != key or len(self._R) != len(self.xs) - 1:
            self._R = [self.char(j) for j in range(1, len(self.xs))]
            self._Rkey = key
        else:
            for k, v in enumerate(self._R):
                if v is None:
                    self._R[k] = self.char(k + 1)
        return self._R

    def formula(self, j):
        xl, xr = self.xs[j - 1], self.xs[j]
        zl, zr = self.zs[j - 1], self.zs[j]
        x = 0.5 * (xl + xr)
        if zl is not None and zr is not None:
            dif = zr - zl
            dg = 1.0 if dif > 0 else -1.0
            x -= 0.5 * dg * math.pow(abs(dif) / self.M, self.N) / self.r
        return x

    def interval_of(self, x):
        """index j with xs[j-1] < x < xs[j], or None"""
        j = bisect.bisect_left(self.xs, x)
        if j <= 0 or j >= len(self.xs) or self.xs[j] == x:
            return None
        return j

    def judge(self, x):
        """Is x an admissible next trial?  Returns (messages, info)."""
        msgs = []
        info = {}
        if not self.trials:
            if x != 0.5:
                msgs.append(f"first trial at x={x!r}, expected 0.5")
            return msgs, info
        if any(x == t[0] for t in self.trials) or x in (0.0, 1.0):
            msgs.append(f"curve point x={x!r} is evaluated twice (or is an end point)")
            return msgs, info
        j = self.interval_of(x)
        if j is None:
            msgs.append(f"x={x!r} is not strictly inside any interval of the partition")
            return msgs, info
        R = self.chars()
        Rmax = max(R)
        Rj = R[j - 1]
        tol = RTOL * max(1.0, abs(Rmax))
        info.update(j=j, D=self.hold(self.xs[j - 1], self.xs[j]), Rmax=Rmax, Rj=Rj, M=self.M,
                    ties=sum(1 for v in R if v >= Rmax - tol), xl=self.xs[j - 1], xr=self.xs[j])
        if not (Rj >= Rmax - tol):
            jb = R.index(Rmax) + 1
            msgs.append(f"trial {len(self.trials) + 1} at x={x!r} subdivides [{self.xs[j - 1]!r},{self.xs[j]!r}] with "
                        f"characteristic {Rj!r}, but [{self.xs[jb - 1]!r},{self.xs[jb]!r}] has {Rmax!r} "
                        f"(M={self.M!r}, z*={self.zstar!r})")
        xe = self.formula(j)
        xl, xr = self.xs[j - 1], self.xs[j]
        tolx = max(1e-12 * (xr - xl), 4 * math.ulp(max(abs(x), abs(xe))))
        if abs(x - xe) > tolx:
            msgs.append(f"trial {len(self.trials) + 1}: x={x!r} inside [{xl!r},{xr!r}] but the rule gives {xe!r}")
        return msgs, info

    def chosen_lengths(self):
        """not available without replay - see stop_lengths()"""
        raise NotImplementedError


def replay_lengths(N, r, trials):
    """Hoelder lengths D_k (k>=2) of the interval subdivided by trial k, from a transcript."""
    ref = RefAGP(N, r)
    out = []
    for (x, z) in trials:
        if ref.trials:
            j = ref.interval_of(x)
            out.append(ref.hold(ref.xs[j - 1], ref.xs[j]) if j is not None else None)
        ref.add(x, z)
    return out

"""Exhaustive certified cell covers (finite abstraction of a continuous box).

A box is subdivided depth first; a cell with centre c and half-diagonal `rad` is a leaf as soon as
f(c) - L*rad clears the threshold, where L bounds |grad f| on the cell (global or cell-local analytic
bound, supplied by the caller and computed from the coefficient tables as they are at run time).
Every leaf is visited; a centre below the threshold is a concrete witness (a real evaluation of the
repository's own Calculate); cells that cannot be decided at the resolution cap are counted as
`undecided`, never reported as violations."""
from __future__ import annotations

import numpy as np


class Cover:
    def __init__(self, f, lo, up, Lfun, feas=None, max_evals=5_000_000, min_frac=2.0 ** -40):
        """f(c) -> value; Lfun(a, b) -> bound of |grad f|_2 on the cell [a, b];
        feas: list of (g, Lg) constraints g(x) <= 0 (cell certified infeasible when g(c) - Lg(a,b)*rad > 0)"""
        self.f = f
        # Lfun may be a plain bound of |grad f| on the cell, or an object with .low(a, b, c, v, rad) returning a
        # certified lower bound of f on the cell (e.g. a second-order bound)
        self.lowfn = getattr(Lfun, "low", None)
        self.lo = np.array(lo, dtype=float)
        self.up = np.array(up, dtype=float)
        self.L = Lfun
        self.feas = feas or []
        self.evals = 0
        self.max_evals = max_evals
        self.min_side = (self.up - self.lo) * min_frac
        self.undecided = 0
        self.leaves = 0
        self.capped = False

    def _low(self, a, b, c, v, rad):
        if self.lowfn is not None:
            return self.lowfn(a, b, c, v, rad)
        return v - self.L(a, b) * rad

    def feasible(self, c):
        return all(g(c) <= 0 for g, _ in self.feas)

    def certified_infeasible(self, a, b, c, rad):
        for g, Lg in self.feas:
            if g(c) - Lg(a, b) * rad > 0:
                return True
        return False

    def lower_bound(self, a, b, target, seed_value=None):
        """Certified lower bound of min f over [a, b] (feasible part) by best-first branch and bound: the cell with
        the smallest bound is split until that bound is within `target` of the best value seen.
        Returns (lower bound, best value seen, argmin)."""
        import heapq
        best = np.inf if seed_value is None else seed_value
        arg = None
        heap = []
        tick = 0

        def push(a, b):
            nonlocal best, arg, tick
            c = (a + b) / 2
            rad = float(np.linalg.norm(b - a)) / 2
            if self.feas and self.certified_infeasible(a, b, c, rad):
                self.leaves += 1
                return
            v = self.f(c)
            self.evals += 1
            if v < best and (not self.feas or self.feasible(c)):
                best = v
                arg = c
            tick += 1
            heapq.heappush(heap, (self._low(a, b, c, v, rad), tick, a, b))
        push(np.array(a, dtype=float), np.array(b, dtype=float))
        while heap:
            low, _, a, b = heap[0]
            if low >= best - target or self.evals > self.max_evals or np.all(b - a <= self.min_side):
                if self.evals > self.max_evals:
                    self.capped = True
                self.leaves += len(heap)
                return low, best, arg
            heapq.heappop(heap)
            k = int(np.argmax((b - a) / (self.up - self.lo)))
            m = (a[k] + b[k]) / 2
            b1 = b.copy()
            b1[k] = m
            a2 = a.copy()
            a2[k] = m
            push(a, b1)
            push(a2, b)
        return np.inf, best, arg

    def clear(self, a, b, thresh, strict=False, floor=None, resolve=0.0, hard=None):
        """Show f > thresh (strict) / f >= thresh on the feasible part of [a, b].
        Returns list of witnesses (c, v) with v below thresh (at most 3); `floor`: a value below which a witness is
        reported as 'far below' (second list)."""
        stack = [(np.array(a, dtype=float), np.array(b, dtype=float))]
        wit = []
        while stack and len(wit) < 3:
            a, b = stack.pop()
            c = (a + b) / 2
            rad = float(np.linalg.norm(b - a)) / 2
            if self.feas and self.certified_infeasible(a, b, c, rad):
                self.leaves += 1
                continue
            v = self.f(c)
            self.evals += 1
            ok_pt = (not self.feas) or self.feasible(c)
            if ok_pt and (v < thresh if not strict else v <= thresh) and floor is not None and v < floor:
                wit.append((c, v))
                continue
            if ok_pt and hard is not None and v < hard:
                wit.append((c, v))     # a concrete evaluation below the hard threshold decides the clause on its own
                continue
            low = self._low(a, b, c, v, rad)
            if (low > thresh) if strict else (low >= thresh):
                self.leaves += 1
                continue
            if np.all(b - a <= self.min_side) or self.evals > self.max_evals or (v - low) <= resolve:
                # a near tie (the value is within `resolve` of the goal) or the resolution cap: reported, not judged
                if self.evals > self.max_evals:
                    self.capped = True
                self.undecided += 1
                continue
            k = int(np.argmax((b - a) / (self.up - self.lo)))
            m = (a[k] + b[k]) / 2
            b1 = b.copy()
            b1[k] = m
            a2 = a.copy()
            a2[k] = m
            stack.append((a, b1))
            stack.append((a2, b))
        return wit


def slabs(lo, up, nlo, nhi):
    """the box [lo, up] minus the inner box [nlo, nhi] as at most 2N disjoint boxes"""
    lo = np.array(lo, dtype=float)
    up = np.array(up, dtype=float)
    out = []
    a, b = lo.copy(), up.copy()
    for k in range(len(lo)):
        if nlo[k] > a[k]:
            b1 = b.copy()
            b1[k] = nlo[k]
            out.append((a.copy(), b1))
        if nhi[k] < b[k]:
            a1 = a.copy()
            a1[k] = nhi[k]
            out.append((a1, b.copy()))
        a[k] = max(a[k], nlo[k])
        b[k] = min(b[k], nhi[k])
    return out


def certify_optimum(f, lo, up, Lfun, decl_pt, decl_val, feas=None, nb_frac=0.005, max_evals=5_000_000,
                    value_tol=1e-4, low_tol=2e-3, abs_tol=None, resolve_frac=0.01):
    """The three clauses of C10 for one instance.  Returns dict(messages=[...], evals, undecided, ...)."""
    lo = np.array(lo, dtype=float)
    up = np.array(up, dtype=float)
    decl_pt = np.array(decl_pt, dtype=float)
    cov = Cover(f, lo, up, Lfun, feas, max_evals)
    msgs = []
    v0 = f(decl_pt)
    if not abs(v0 - decl_val) <= value_tol:
        msgs.append(f"objective at the declared optimum point {decl_pt.tolist()} is {v0!r}, declared value {decl_val!r}")
    if np.any(decl_pt < lo) or np.any(decl_pt > up):
        msgs.append(f"declared optimum point {decl_pt.tolist()} outside the box")
    tol = low_tol * max(1.0, abs(decl_val)) if abs_tol is None else abs_tol
    thresh = decl_val - tol
    half = nb_frac * (up - lo)
    nlo = np.maximum(lo, decl_pt - half)
    nhi = np.minimum(up, decl_pt + half)
    # neighbourhood of the declared point: certified lower bound and best value
    lb_nb, best_nb, arg_nb = cov.lower_bound(nlo, nhi, target=0.02 * tol)
    if feas and not cov.feasible(decl_pt):
        # the declared point itself may sit on a constraint boundary to its printed precision
        pass
    else:
        best_nb = min(best_nb, v0)
    if best_nb < thresh:
        msgs.append(f"point {None if arg_nb is None else arg_nb.tolist()} has value {best_nb!r}, lower than the declared "
                    f"optimum {decl_val!r} by more than {tol!r}")
    wit_low = []
    wit_far = []
    for (a, b) in slabs(lo, up, nlo, nhi):
        if msgs or wit_low or wit_far:
            break      # the instance is already decided (violated) by a concrete evaluation: no need to finish the cover
        # far region: nothing below thresh (clause ii) and nothing at or below the best of the neighbourhood (iii)
        goal = max(thresh, min(best_nb, decl_val + tol)) if np.isfinite(best_nb) else thresh
        w = cov.clear(a, b, goal, strict=True, floor=min(lb_nb, goal), resolve=resolve_frac * tol, hard=thresh)
        for c, v in w:
            if v < thresh:
                wit_low.append((c, v))
            elif v < lb_nb:
                wit_far.append((c, v))
    for c, v in wit_low[:2]:
        msgs.append(f"point {c.tolist()} has value {v!r}, lower than the declared optimum {decl_val!r} by more than {tol!r}")
    for c, v in wit_far[:2]:
        msgs.append(f"point {c.tolist()} (farther than {nb_frac * 100}% of the box side from the declared point "
                    f"{decl_pt.tolist()}) has value {v!r}, below the certified lower bound {lb_nb!r} of the whole "
                    f"neighbourhood of the declared point: no global minimiser lies within {nb_frac * 100}% of it")
    return dict(messages=msgs, evals=cov.evals, undecided=cov.undecided, leaves=cov.leaves, capped=cov.capped,
                best_nb=best_nb, lb_nb=lb_nb, value_at_declared=v0)

"""Plans of solver explorations shared by the solver-level checks (C02, C04, C06, ...):
answer trees + deviation-bounded long runs, executed in parallel, one visitor per execution."""
from __future__ import annotations

import importlib
import itertools

from mc.common import pmap, Result
from mc import tree
from mc.envs import make_env, BENCH12

ALPHABETS = {
    "A013": [0.0, 1.0, 3.0],
    "A01": [0.0, 1.0],
    "Am201": [-2.0, 0.0, 1.0],
    "A01e6": [0.0, 1.0, 1e6],
    "A3210": [3.0, 2.0, 1.0, 0.0],
    "A001": [0.0, 0.0, 1.0],
    "Ahalf": [0.5, 0.5000001, 0.25],
    "Asmall": [0.0, 0.01, 0.02],      # slopes stay below the floor M = 1 for many trials
    # value domains: everything below -1; tiny values that cross zero; large negative; values closer than 1e-9
    "Aneg": [-3.0, -1.5, -1.2],
    "Atiny": [-1e-6, 0.0, 1e-6],
    "Anegbig": [-1e6, 0.0, 3.0],
    "Anear": [1.0, 1.0 + 1e-10, 1.0 - 1e-10],
    "Abig7": [0.0, 2e6, 1e7],
    "Aoffs": [5e7, 5e7 + 150.0, 5e7 - 120.0],      # differences far below 1e-5 of the magnitude
}

# (kind, value): how a deviation replaces the default answer
ALTS = [("add", -1.0), ("add", 1.0)]


def _alt_fns(default_fn, alts):
    out = []
    for kind, v in alts:
        if kind == "add":
            out.append(lambda k, y, v=v: default_fn(k, y) + v)
        else:
            out.append(lambda k, y, v=v: v)
    return out


def _visitor(spec):
    modname, cls = spec.split(":")
    return getattr(importlib.import_module(modname), cls)


def work(task):
    V = _visitor(task["visitor"])
    if task["kind"] == "tree":
        vis = V()
        stats, viol = tree.run_tree_block(task, vis)
        stats["summary"] = vis.summary() if hasattr(vis, "summary") else {}
        return stats, viol
    cfg, h = task["cfg"], task["h"]
    default_fn = make_env(cfg["env"], cfg)
    alts = _alt_fns(default_fn, task["alts"])
    stats = dict(runs=0, nodes=0, trials=0, summary={})
    viol = []
    for dev in task["devs"]:
        vis = V()
        nodes, done, msgs = tree.run_dev(cfg, default_fn, alts, dev, h, vis, batch=int(task.get("batch", 1)),
                                         refine_at=task.get("refine_at"), solve_at=task.get("solve_at"))
        stats["runs"] += 1
        stats["nodes"] += nodes
        stats["trials"] += done
        if getattr(vis, "horizon_stop", None):
            stats["horizon_stops"] = stats.get("horizon_stops", 0) + 1
        if hasattr(vis, "summary"):
            for k, v in vis.summary().items():
                stats["summary"][k] = stats["summary"].get(k, 0) + v
        for j, m in msgs:
            viol.append(dict(driver="dev", cfg=cfg, alts=task["alts"], dev=[list(d) for d in dev], h=j, message=m,
                             batch=int(task.get("batch", 1)), refine_at=task.get("refine_at"),
                             solve_at=task.get("solve_at"), visitor=task["visitor"],
                             sig=dict(kind="node")))
        if len(viol) > 50:
            break
    return stats, viol


def replay(rec, visitor_spec):
    V = _visitor(rec.get("visitor") or visitor_spec)
    if rec["driver"] == "tree":
        return tree.replay_tree(rec, V())
    cfg = rec["cfg"]
    default_fn = make_env(cfg["env"], cfg)
    alts = _alt_fns(default_fn, [tuple(a) for a in rec["alts"]])
    dev = tuple((int(p), int(a)) for p, a in rec["dev"])
    vis = V()
    nodes, done, msgs = tree.run_dev(cfg, default_fn, alts, dev, int(rec["h"]), vis, batch=int(rec.get("batch", 1)),
                                     refine_at=rec.get("refine_at"), solve_at=rec.get("solve_at"))
    return [m for _, m in msgs]


def dev_tasks(cfg, h, b, visitor, alts=ALTS, chunk=150, start=2, batch=1, refine_at=None, solve_at=None):
    devs = list(tree.deviation_sets(h, len(alts), b, start=start))
    for i in range(0, len(devs), chunk):
        yield dict(kind="dev", cfg=cfg, h=h, alts=[list(a) for a in alts], devs=devs[i:i + chunk], visitor=visitor,
                   batch=batch, refine_at=refine_at, solve_at=solve_at)


def tree_tasks(cfg, alphabet_name, depth, visitor, split=2, batch=1):
    for t in tree.tree_tasks(cfg, ALPHABETS[alphabet_name], depth, split=split):
        t["kind"] = "tree"
        t["batch"] = batch
        t["visitor"] = visitor
        t["alphabet_name"] = alphabet_name
        yield t


def standard_plan(ctx, visitor, depths_quick=(8, 7, 6, 5, 5), depths_thorough=(10, 9, 8, 7, 6),
                  boxes=("B0",), alphabets_fixed=("A013",), alphabet_pool=("A01", "Am201", "A01e6", "A3210", "A001"),
                  n_seeded=2, long_runs=True, refine_ops=False, deep_runs=False, rs_thorough=(1.05, 1.5, 2.0, 3.5, 8.0),
                  n_seeded_thorough=None, extras=True):
    """the plan of DESIGN C02: trees per (N, r, alphabet) + deviation-bounded long runs"""
    tasks = []
    th = ctx.thorough
    depths = depths_thorough if th else depths_quick
    rs = tuple(rs_thorough) if th else (2.0, 3.5)
    alphs = list(alphabets_fixed) + (list(alphabet_pool) if th and n_seeded_thorough is None else
                                    ctx.pick(alphabet_pool, n_seeded_thorough if th else n_seeded))
    for N in (1, 2, 3, 4, 5):
        for r in rs:
            for a in alphs:
                for bx in boxes:
                    d = depths[N - 1]
                    k = len(ALPHABETS[a])
                    if k == 2:
                        d += 3
                    elif k == 4:
                        d -= 1
                    if th and r not in (2.0, 3.5):
                        d -= 1      # the full depth for two values of r, one level less for the rest of the r grid
                    cfg = dict(N=N, r=r, box=bx)
                    tasks += list(tree_tasks(cfg, a, d, visitor, split=2 if d < 9 else 3))
    # the same trees driven through DoGlobalIteration(k), k > 1 (and one call for the whole depth)
    for N in ((1, 2, 3, 4, 5) if extras else ()):
        d = depths[N - 1]
        for r in ((2.0, 3.5) if th else (2.0,)):
            for bsz in ((2, 3, 4, d) if th else (2, 3, d)):
                for a in (("A013", "Am201") if th else ("A013",)):
                    cfg = dict(N=N, r=r, box=boxes[0])
                    tasks += list(tree_tasks(cfg, a, d, visitor, split=2 if d < 9 else 3, batch=bsz))
    # values whose slopes stay below 1 (the estimate M rests on its floor), and a coarse evolvent density
    for N in (((1, 2, 3) if th else (1, 2)) if extras else ()):
        tasks += list(tree_tasks(dict(N=N, r=2.0, box=boxes[0]), "Asmall", depths[N - 1], visitor, split=2))
        tasks += list(tree_tasks(dict(N=N, r=2.0, box=boxes[0], density=3), "A013", depths[N - 1], visitor, split=2))
    # a user Problem may hand back a new value holder instead of filling the one it was given
    for N in (((1, 2, 3) if th else (1, 2)) if extras else ()):
        cfg = dict(N=N, r=2.0, box=boxes[0], holder="fresh")
        tasks += list(tree_tasks(cfg, "A013", depths[N - 1] - 1, visitor, split=2))
        tasks += list(tree_tasks(cfg, "A013", depths[N - 1] - 1, visitor, split=2, batch=3))
    # an unrelated solver of another dimension constructed before / after the solver under test and iterated between its
    # first calls; and a budget (itersLimit) far below the number of iterations made through the step-wise API
    for N in (((1, 2, 3, 4) if th else (1, 2, 3)) if extras else ()):
        d = depths[N - 1] - 1
        for other in ([N + 1, "after"], [1 if N > 1 else 2, "before"]):
            tasks += list(tree_tasks(dict(N=N, r=2.0, box=boxes[0], other=other), "A013", d, visitor, split=2))
        tasks += list(tree_tasks(dict(N=N, r=2.0, box=boxes[0], itersLimit=3), "A013", d + 1, visitor, split=2))
        tasks += list(tree_tasks(dict(N=N, r=3.5, box=boxes[0], itersLimit=2), "A01", d + 2, visitor, split=2, batch=2))
        # a Problem that declares constraints (only its objective is evaluated by this solver), and read-only queries of
        # solver.evolvent (inverse images of an arbitrary box point) between the calls
        tasks += list(tree_tasks(dict(N=N, r=2.0, box=boxes[0], constraints=2, discrete=1 if N > 1 else 0), "A013", d, visitor, split=2))
        if N >= 2:
            tasks += list(tree_tasks(dict(N=N, r=2.0, box="B1", probe=True), "A013", d, visitor, split=2))
            tasks += list(tree_tasks(dict(N=N, r=2.0, box="B1", startPoint=True), "A013", d - 1, visitor, split=2))
    # value domains and values of r that the grids above do not contain (powers of two, a large one, one just above 1)
    for N in (((1, 2, 3) if th else (1, 2)) if extras else ()):
        d = depths[N - 1] - 1
        for a in ("Aneg", "Atiny", "Anegbig", "Anear", "Abig7", "Aoffs"):
            tasks += list(tree_tasks(dict(N=N, r=2.0, box=boxes[0]), a, d, visitor, split=2))
        for r in (4.0, 16.0, 12.5, 1.01):
            tasks += list(tree_tasks(dict(N=N, r=r, box=boxes[0]), "Am201", d - 1, visitor, split=2))
    # the same inputs spelled differently: read-only bound arrays, tuples, strided views, numpy-scalar parameters
    for N in (((1, 2, 3) if th else (1, 2)) if extras else ()):
        for sp in ("readonly", "tuple", "column", "npscalar"):
            tasks += list(tree_tasks(dict(N=N, r=2.0, box="B1", spell=sp), "A013", depths[N - 1] - 1, visitor, split=2))
            tasks += list(tree_tasks(dict(N=N, r=3.0, box="B1", spell=sp), "Am201", depths[N - 1] - 2, visitor, split=2, batch=3))
    # whole-number bounds of integer type (int64 arrays / lists of Python ints), every dimension including N = 1
    for N in (((1, 2, 3) if th else (1, 2)) if extras else ()):
        tasks += list(tree_tasks(dict(N=N, r=2.0, box="Z"), "A013", depths[N - 1] - 1, visitor, split=2))
        tasks += list(tree_tasks(dict(N=N, r=3.0, box="Z", spell="intlist"), "Am201", depths[N - 1] - 2, visitor, split=2, batch=2))
    # calls made before the first successful iteration in an order no tutorial uses (results asked for, a refinement
    # requested, the very first evaluation failing, a zero-size call), and a one-off objective failure at the k-th evaluation
    # inside a batched call (the call ends early - a moment of its own - and the search simply goes on)
    for N in (((1, 2, 3) if th else (1, 2)) if extras else ()):
        d = depths[N - 1] - 2
        for pre in (["fail1"], ["refine0"], ["results0", "zero0"], ["results0", "refine0", "fail1", "fail1"]):
            tasks += list(tree_tasks(dict(N=N, r=2.0, box=boxes[0], prelude=pre), "A013", d, visitor, split=2))
        tasks += list(tree_tasks(dict(N=N, r=3.0, box="B1", prelude=["fail1", "refine0"]), "Am201", d, visitor, split=2, batch=3))
        for fa in (2, 3, 4, 5):
            for bsz in (3, d):
                tasks += list(tree_tasks(dict(N=N, r=2.0, box="B1", fail_at=fa), "Am201", d, visitor, split=2, batch=bsz))
    # the objective value left as a 0-d array in the holder; a read-only listener that walks the search information partly
    for N in (((1, 2, 3) if th else (1, 2)) if extras else ()):
        tasks += list(tree_tasks(dict(N=N, r=2.0, box=boxes[0], holder="zerod"), "A013", depths[N - 1] - 1, visitor, split=2))
        tasks += list(tree_tasks(dict(N=N, r=1.5, box="B1", holder="zerod"), "Am201", depths[N - 1] - 2, visitor, split=2, batch=2))
        tasks += list(tree_tasks(dict(N=N, r=2.0, box=boxes[0], peek=True), "A013", depths[N - 1] - 1, visitor, split=2))
        tasks += list(tree_tasks(dict(N=N, r=3.0, box="B1", peek=True), "Am201", depths[N - 1] - 2, visitor, split=2, batch=3))
    if long_runs and extras:
        # long runs whose values decrease at every trial, are all negative, huge, or tiny
        for env in ("dec", "negquad", "big", "tiny"):
            for N in (1, 2):
                cfg = dict(N=N, r=2.0 if N == 1 else 3.0, box="B1", env=env)
                tasks += list(dev_tasks(cfg, 120 if th else 60, 0, visitor))
                tasks += list(dev_tasks(cfg, 120 if th else 60, 0, visitor, batch=7))
                tasks += list(dev_tasks(cfg, 40 if th else 24, 1, visitor, chunk=20))
    if long_runs:
        envs = ("abs13", "const", "lin", "stair")
        # into the resolution horizon: monotone / V-shaped objectives iterated until doubles cannot split the interval
        for env in ("abs13", "lin", "neglin"):
            for r in ((1.5, 2.0, 3.5) if th else (1.5, 3.5)):
                tasks += list(dev_tasks(dict(N=1, r=r, box="B0", env=env), 120 if th else 90, 0, visitor))
        for N in ((1, 2, 3) if th else (1, 2)):
            for env in envs:
                for r in ((1.5, 2.0, 3.5) if th else (2.0,)):
                    cfg = dict(N=N, r=r, box="B1" if N == 2 else "B0", env=env)
                    # iterate the bound: more deviations on shorter horizons
                    for h, b in (((200, 0), (80, 1), (40, 2), (14, 3)) if th else ((30, 2),)):
                        tasks += list(dev_tasks(cfg, h, b, visitor))
        if deep_runs:
            for env, N in (("const", 1), ("stair", 1), ("sin", 1), ("sqrt", 1)) + ((("lin", 1), ("quad", 1), ("const", 2)) if th else ()):
                cfg = dict(N=N, r=2.0, box="B0", env=env)
                tasks += list(dev_tasks(cfg, 9000 if th else 4200, 0, visitor, batch=50))
        bl = BENCH12 if th else list(dict.fromkeys(ctx.pick(BENCH12, 6) + (["Hill:3"] if deep_runs else [])))
        for spec in bl:
            from mc.envs import bench
            N = bench(spec).numberOfFloatVariables
            cfg = dict(N=N, r=2.5, env="bench:" + spec)
            tasks += list(dev_tasks(cfg, 500 if th else 200, 0, visitor))
            tasks += list(dev_tasks(cfg, 60 if th else 40, 1, visitor, chunk=20))
            tasks += list(dev_tasks(cfg, 300 if th else 120, 0, visitor, batch=7))
            tasks += list(dev_tasks(cfg, 60 if th else 36, 1, visitor, chunk=20, batch=3))
            if spec in ("Hill:3", "Shekel:7", "Rastrigin:2") and deep_runs:
                # the deep end of the ladder: thousands of trials (batched calls, every trial judged)
                tasks += list(dev_tasks(dict(cfg, r=3.0), 9000 if th else 4200, 0, visitor, batch=50))
            if refine_ops:
                # Solve() in the middle of a step-wise search (budget used up: it may only notify), with each console
                # listener mode riding along; the search is resumed afterwards
                for mode in ("full", "custom", "result"):
                    for pos in ((4, 9, 17, 30) if th else (6, 17)):
                        c2 = dict(cfg, itersLimit=pos, console=mode)
                        tasks += list(dev_tasks(c2, 60 if th else 45, 0, visitor, solve_at=pos))
            if refine_ops:
                # global iterations, one DoLocalRefinement call at every position p, then more global iterations
                hh = 90 if th else 60
                for pos in range(3, hh - 8, 2 if th else 5):
                    for n_loc in ((5, 40) if th else (20,)):
                        tasks += list(dev_tasks(cfg, hh, 0, visitor, refine_at=[pos, n_loc]))
    return tasks


def execute(tasks, res=None):
    """run all tasks in parallel; returns (Result with merged violations, aggregate stats)"""
    res = res or Result()
    # biggest first for load balance
    order = sorted(range(len(tasks)), key=lambda i: -_cost(tasks[i]))
    out = pmap(work, [tasks[i] for i in order])
    agg = dict(runs=0, nodes=0, trials=0, tree_runs=0, dev_runs=0, horizon_stops=0)
    summ = {}
    for i, (stats, viol) in zip(order, out):
        agg["runs"] += stats["runs"]
        agg["nodes"] += stats["nodes"]
        agg["trials"] += stats["trials"]
        agg["horizon_stops"] += stats.get("horizon_stops", 0)
        agg["tree_runs" if tasks[i]["kind"] == "tree" else "dev_runs"] += stats["runs"]
        for k, v in stats.get("summary", {}).items():
            summ[k] = summ.get(k, 0) + v
        res.merge_violations(viol)
    agg["summary"] = summ
    return res, agg


def _cost(t):
    if t["kind"] == "tree":
        return len(t["alphabet"]) ** (t["depth"] - len(t["prefix"])) * t["depth"] * (1 + t["cfg"]["N"])
    return len(t["devs"]) * t["h"] * (1 + t["h"] / 30.0) * (1 + t["cfg"]["N"])


def describe(tasks):
    """bounds actually planned, for the evidence"""
    trees = {}
    devs = {}
    for t in tasks:
        c = t["cfg"]
        if t["kind"] == "tree":
            key = f"N={c['N']} r={c['r']} box={c.get('box')} V={t['alphabet_name']} depth={t['depth']}" + \
                  (" holder=fresh" if c.get("holder") else "") + (f" other={c['other']}" if c.get("other") else "") + \
                  (f" itersLimit={c['itersLimit']}" if c.get("itersLimit") else "") + \
                  (f" density={c['density']}" if c.get("density") else "") + \
                  (" constraints=2" if c.get("constraints") else "") + (f" spell={c['spell']}" if c.get("spell") else "") + (" peek" if c.get("peek") else "") + (" evolvent probed" if c.get("probe") else "") + \
                  (f" batch={t['batch']}" if t.get("batch", 1) != 1 else "")
            trees[key] = trees.get(key, 0) + len(t["alphabet"]) ** (t["depth"] - len(t["prefix"]))
        else:
            b = max((len(d) for d in t["devs"]), default=0)
            key = f"N={c['N']} r={c['r']} env={c['env']} horizon={t['h']}" + \
                  (f" refine_after={t['refine_at'][0]}" if t.get("refine_at") else "") + \
                  (f" Solve_after={t['solve_at']} console={c.get('console')}" if t.get("solve_at") else "") + \
                  (f" batch={t['batch']}" if t.get("batch", 1) != 1 else "")
            e = devs.setdefault(key, [0, 0])
            e[0] += len(t["devs"])
            e[1] = max(e[1], b)
    return dict(trees=trees, deviation_runs={k: dict(executions=v[0], max_deviations=v[1]) for k, v in devs.items()})

"""C08 - the evolvent is a continuous (Hoelder) space-filling curve.

(1) all cells, small (N, m): consecutive subintervals map to face-adjacent cells; the 2^N children at
    density m+1 lie inside the parent cell; Hoelder inequality for ALL pairs of cells (N*m <= 10/12);
(2) pair automaton on the extracted orientation machine: the cell difference across every block
    boundary stays a signed unit vector in every reachable pair state => adjacency at every depth;
(3) deep replay at full density (N*m <= 50): for automaton traces the real images of subinterval i and
    i+1 are face-adjacent, and children nest at density m -> m+1."""
import math

import numpy as np

from mc.common import Result, pmap
from mc import curve
from checks.c07 import automata, deep_traces, _extract

PROPERTY = "C08"
LEVEL = "model_checking"


def cells_of(N, m, a, b):
    """integer cells (tuples) of subintervals a..b-1 on the unit cube, exact"""
    ev = curve.unit_ev(N, m)
    n = 2 ** (N * m)
    out = []
    for i in range(a, b):
        y = ev.GetImage((i + 0.5) / n)
        c = (y + 0.5) * 2 ** m - 0.5
        ci = np.rint(c)
        out.append(tuple(int(v) for v in ci) if np.all(c == ci) else None)
    return out


def adj_chunk(task):
    N, m, a, b = task["N"], task["m"], task["a"], task["b"]
    n = 2 ** (N * m)
    cs = cells_of(N, m, a, min(n, b + 1))
    msgs = []
    for k in range(len(cs) - 1):
        i = a + k
        c0, c1 = cs[k], cs[k + 1]
        if c0 is None or c1 is None:
            msgs.append(f"N={N} m={m}: image of subinterval {i if c0 is None else i + 1} is not a cell centre")
            continue
        d = [abs(u - v) for u, v in zip(c0, c1)]
        if sorted(d) != [0] * (N - 1) + [1]:
            msgs.append(f"N={N} m={m}: subintervals {i} and {i + 1} map to cells {c0} and {c1}, which are not face-adjacent")
    # nesting: children at density m+1
    if task["nest"]:
        B = 2 ** N
        ch = cells_of(N, m + 1, a * B, b * B)
        for k in range(b - a):
            par = cs[k]
            for d in range(B):
                c = ch[k * B + d]
                if c is None or par is None or tuple(v // 2 for v in c) != par:
                    msgs.append(f"N={N}: child {d} of subinterval {a + k} at density {m + 1} is cell {c}, outside the "
                                f"density-{m} cell {par}")
    return (len(cs) - 1) + (len(cs) - 1) * (2 ** N if task["nest"] else 0), msgs[:8]


def holder_chunk(task):
    """all pairs (i, j), i in [a, b), j > i: ||c_i - c_j|| * 2^-m <= 2 sqrt(N+3) * sep^(1/N), least admissible sep"""
    N, m, a, b = task["N"], task["m"], task["a"], task["b"]
    n = 2 ** (N * m)
    C = np.array(cells_of(N, m, 0, n), dtype=float)
    K = 2.0 * math.sqrt(N + 3)
    msgs = []
    worst = 0.0
    pairs = 0
    for i in range(a, b):
        j = np.arange(i + 1, n)
        if len(j) == 0:
            continue
        dist = np.sqrt(((C[j] - C[i]) ** 2).sum(axis=1)) / 2 ** m
        sep = np.maximum(j - i - 1, 1) / n
        rhs = K * sep ** (1.0 / N)
        ratio = dist / rhs
        pairs += len(j)
        w = float(ratio.max())
        worst = max(worst, w)
        if w > 1.0 + 1e-12:
            jj = int(j[int(ratio.argmax())])
            msgs.append(f"N={N} m={m}: cells of subintervals {i} and {jj} are {float(dist[ratio.argmax()])!r} apart, more than "
                        f"2*sqrt(N+3)*|dx|^(1/N) = {float(rhs[ratio.argmax()])!r} for the least admissible |dx|")
            if len(msgs) > 3:
                break
    return pairs, worst, msgs


def box_chunk(task):
    """the statement in box coordinates: consecutive cells one cell width apart along one axis, and the Hoelder
    bound with the largest side of the configured box, for every pair of cells; the box is configured by the
    constructor or through SetBounds (task['via'])"""
    from mc.env import box
    N, m, bx, via = task["N"], task["m"], task["box"], task.get("via")
    lo, up = box(bx, N)
    side = np.array(up, dtype=float) - np.array(lo, dtype=float)
    ev = curve.make_ev(N, m, bx, via)
    n = 2 ** (N * m)
    Y = np.array([ev.GetImage((i + 0.5) / n) for i in range(n)])
    w = side / 2 ** m
    tag = f"N={N} m={m} box={bx}" + (f" (set with SetBounds on an evolvent built for {via})" if via else "")
    msgs = []
    for i in range(n - 1):
        d = np.abs(Y[i + 1] - Y[i]) / w
        if not np.allclose(sorted(d.tolist()), [0.0] * (N - 1) + [1.0], rtol=0, atol=1e-6):
            msgs.append(f"{tag}: images of subintervals {i} and {i + 1} differ by {d.tolist()} cell widths (expected one "
                        f"width along one axis)")
            break
    if not msgs:
        msgs += curve.query_mix(ev, N, m, lo, up, tag)
    K = 2.0 * math.sqrt(N + 3) * float(side.max())
    pairs = 0
    worst = 0.0
    for i in range(n - 1):
        j = np.arange(i + 1, n)
        dist = np.sqrt(((Y[j] - Y[i]) ** 2).sum(axis=1))
        rhs = K * (np.maximum(j - i - 1, 1) / n) ** (1.0 / N)
        ratio = dist / rhs
        pairs += len(j)
        worst = max(worst, float(ratio.max()))
        if ratio.max() > 1.0 + 1e-9:
            jj = int(j[int(ratio.argmax())])
            msgs.append(f"{tag}: images of subintervals {i} and {jj} are {float(dist[ratio.argmax()])!r} apart, more than "
                        f"2*sqrt(N+3)*|dx|^(1/N)*(largest side {float(side.max())!r}) = {float(rhs[ratio.argmax()])!r}")
            break
    return pairs + n - 1, worst, msgs


def deep_task(task):
    N, m, A = task["N"], task["m"], task["A"]
    ev = curve.unit_ev(N, m)
    n = 2 ** (N * m)
    B = 2 ** N
    msgs = []
    cnt = 0
    seen = set()
    nest_ok = N * (m + 1) <= 50
    ev2 = curve.unit_ev(N, m + 1) if nest_ok else None
    for digs in deep_traces(A, N, m, pads=task["pads"]):
        key = tuple(digs)
        if key in seen:
            continue
        seen.add(key)
        x, w = curve.x_of_prefix(N, digs)
        y0 = ev.GetImage(x + w / 2)
        cnt += 1
        if x + w < 1.0:
            y1 = ev.GetImage(x + w + w / 2)
            d = np.abs(y1 - y0) * 2 ** m
            if sorted(d.tolist()) != [0.0] * (N - 1) + [1.0]:
                msgs.append(f"N={N} m={m}: subinterval with digits {digs} and its successor map to {y0.tolist()} and "
                            f"{y1.tolist()}: not face-adjacent cells")
        if nest_ok:
            for d in (0, B - 1, (len(seen) * 7) % B):
                yc = ev2.GetImage(x + (d + 0.5) * w / B)
                if np.abs(yc - y0).max() * 2 ** (m + 2) != 1.0:
                    msgs.append(f"N={N}: child {d} of subinterval {digs} at density {m + 1} maps to {yc.tolist()}, not "
                                f"inside the density-{m} cell centred at {y0.tolist()}")
        if len(msgs) > 5:
            break
    return cnt, msgs


def run(ctx):
    res = Result()
    th = ctx.thorough
    bound = 18 if th else 14
    hb = 12 if th else 10
    tasks = []
    for (N, m) in curve.small_configs(bound):
        n = 2 ** (N * m)
        step = max(128, n // 32)
        nest = N * (m + 1) <= bound + 2
        for a in range(0, n, step):
            tasks.append(dict(N=N, m=m, a=a, b=min(n, a + step), nest=nest))
    tasks.sort(key=lambda t: -(t["b"] - t["a"]) * t["m"] * (2 ** t["N"] if t["nest"] else 1))
    nadj = 0
    for t, (k, msgs) in zip(tasks, pmap(adj_chunk, tasks)):
        nadj += k
        for msg in msgs:
            res.add_violation(dict(driver="adjacent", **t, message=msg, sig={}))
    htasks = []
    for (N, m) in curve.small_configs(hb):
        n = 2 ** (N * m)
        # earlier rows have more pairs: split rows in unequal slices
        cuts = sorted({int(n * (1 - math.sqrt(1 - q / 16.0))) for q in range(17)})
        for a, b in zip(cuts, cuts[1:]):
            if b > a:
                htasks.append(dict(N=N, m=m, a=a, b=b))
    npairs = 0
    worst = 0.0
    for t, (k, w, msgs) in zip(htasks, pmap(holder_chunk, htasks)):
        npairs += k
        worst = max(worst, w)
        for msg in msgs:
            res.add_violation(dict(driver="holder", **t, message=msg, sig={}))
    from mc.env import BOXES
    btasks = []
    for (N, m) in curve.small_configs(8 if not th else 10):
        if N < 2:
            continue
        for bx in BOXES + ("B4", "Z", "Zh", "E", "D", "S", "F", "T", "U"):
            btasks.append(dict(N=N, m=m, box=bx, via=None))
        for via, bx in curve.VIA_PAIRS:
            btasks.append(dict(N=N, m=m, box=bx, via=via))
    nbox = 0
    for t, (k, w, msgs) in zip(btasks, pmap(box_chunk, btasks)):
        nbox += k
        for msg in msgs:
            res.add_violation(dict(driver="box", **t, message=msg, sig={}))
    Ns = (2, 3, 4, 5) if th else (2, 3, 4)
    auts = automata(ctx, Ns)
    pstates = ptrans = 0
    for N in Ns:
        A = auts[N]
        if isinstance(A, str):
            res.add_violation(dict(driver="automaton", N=N, message=A, sig={}))
            continue
        for msg in curve.check_inside_adjacent(A):
            res.add_violation(dict(driver="automaton", N=N, message=msg, sig={}))
        ns, nt, bad = curve.pair_closure(A)
        pstates += ns
        ptrans += nt
        for st, (s, d, tail) in bad[:3]:
            res.add_violation(dict(driver="automaton", N=N,
                                   message=f"N={N}: pair automaton reaches a state where the cells on both sides of a block "
                                           f"boundary differ by {st[2]} (not a unit step): boundary between children {d} and "
                                           f"{d + 1} of state {s} (witness {A.witness[s]}), {len(tail)} levels deeper", sig={}))
    dtasks = []
    for (N, m) in curve.deep_configs(50):
        if N not in auts or isinstance(auts[N], str):
            continue
        pads = (0, 1, 2) if th else ((m + ctx.seed + 1) % 3,)
        dtasks.append(dict(N=N, m=m, A=auts[N], pads=pads))
    dtasks.sort(key=lambda t: -t["m"] * t["m"] * 2 ** t["N"] * t["A"].nstates())
    deep = 0
    for t, (k, msgs) in zip(dtasks, pmap(deep_task, dtasks)):
        deep += k
        for msg in msgs:
            res.add_violation(dict(driver="deep", N=t["N"], m=t["m"], pads=list(t["pads"]), message=msg, sig={}))
    res.cov = dict(
        states=pstates, transitions=ptrans, traces_validated_against_impl=deep,
        evaluations=nadj + npairs + deep + nbox, distinct_nontrivial=nadj, box_coordinate_pairs=nbox,
        rule="states/transitions = reachable states of the pair automaton (left block follows last digit, right block digit 0, "
             "cell difference) over the extracted orientation machine, N in the automaton set; all-cells part: every "
             "consecutive pair and every parent/child pair for N*m <= bound (distinct non-trivial), every pair of cells for "
             "N*m <= holder bound; traces = deep replays at full density",
        exhaustive=True, all_cells_bound=bound, holder_bound=hb, holder_pairs=npairs, worst_holder_ratio=worst,
        adjacency_and_nesting_pairs=nadj, deep_replays=deep, automaton_N=list(Ns),
        samples=[dict(N=2, m=3, pair=[5, 6]), dict(N=3, m=2, holder_pair=[0, 63])],
    )
    res.assumptions = ["adjacency for all depths rests on the extracted automaton being the implementation's descent "
                       "(congruence replay in C07, deep replay here)"]
    return res


def replay(rec):
    d = rec["driver"]
    if d == "adjacent":
        return adj_chunk(rec)[1]
    if d == "holder":
        return holder_chunk(rec)[2]
    if d == "box":
        return box_chunk(rec)[2]
    A = _extract((rec["N"], 1))
    if isinstance(A, str):
        return [A]
    if d == "automaton":
        ns, nt, bad = curve.pair_closure(A)
        return curve.check_inside_adjacent(A) + [f"pair state with non-unit difference {st[2]}" for st, _ in bad[:3]]
    if d == "deep":
        return deep_task(dict(N=rec["N"], m=rec["m"], A=A, pads=tuple(rec["pads"])))[1]
    return []

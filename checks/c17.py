"""C17 - evolvent queries are pure.

Canonical-state BFS on ONE Evolvent object: state = digest of the object's attributes (scratch
vector contents and dtype, bounds); transitions = the public calls from a small alphabet (images,
inverse images with float arrays / Python int lists / int arrays, SetBounds with lists and arrays).
BFS to closure with merging, and - independently - every call sequence up to a length without merging.
Oracle per transition: result equals the same call on a fresh object with the current bounds; the
argument is unchanged; every array returned earlier on the path is unchanged."""
import itertools
import copy

import numpy as np

from mc.common import Result, pmap
from mc.digest import digest
from mc.env import box
from iOpt.evolvent.evolvent import Evolvent

PROPERTY = "C17"
LEVEL = "model_checking"

# (N, m, how the object is first constructed): "B1" = float lists of box B1; "int" = Python int lists [-1]*N, [1]*N
CONFIGS = [(1, 10, "B1"), (2, 3, "B1"), (3, 2, "B1"), (5, 2, "B1"), (2, 3, "int"), (5, 12, "B1"), (1, 10, "int"),
           (2, 10, "B1"), (4, 3, "B1"), (2, 3, "ro"), (3, 2, "tuple"), (1, 10, "deferred"), (2, 3, "deferred")]


def alphabet(N):
    b1 = box("B1", N)
    b2 = box("B2", N)
    ops = [
        ("GetImage", 0.7),
        ("GetImage", 0.3000001),
        ("GetImage", 1.0),
        ("GetInverseImage", np.array([1.3 - 0.11 * i for i in range(N)], dtype=np.double)),
        ("GetInverseImage", [1] * N),
        ("GetInverseImage", np.array([1] * N, dtype=np.int64)),
        ("GetPreimages", [0.7 + 0.05 * i for i in range(N)]),
        ("GetPreimages", [0] * N if N == 1 else [1] * N),
        ("SetBounds", (list(b1[0]), list(b1[1]))),
        ("SetBounds", (np.array(b2[0]), np.array(b2[1]))),
        # the unit cube itself: the box <-> cube maps are the identity there (a shortcut waiting to alias)
        ("SetBounds", (np.array([-0.5] * N), np.array([0.5] * N))),
        ("GetImage", 0.0),
        ("GetInverseImage", np.array([0.3 - 0.11 * i for i in range(N)], dtype=np.double)),
        ("GetPreimages", np.array([0.45 + 0.05 * i for i in range(N)], dtype=np.double)),
        # coordinates exactly at the centre of the B1 range / of the unit cube (zero residual at the first level)
        ("GetInverseImage", np.array([(b1[0][i] + b1[1][i]) / 2 if i % 2 == 0 else 1.1 for i in range(N)], dtype=np.double)),
        ("GetInverseImage", np.array([0.0 if i % 2 else 0.25 for i in range(N)], dtype=np.double)),
        # the caller re-uses (overwrites in place) the arrays it once handed over as bounds: the object keeps its box
        ("CallerOverwritesItsBoundArrays", None),
        # a box that is inverted in one coordinate: this version takes it as it is; a version that refuses it (raises)
        # must leave the object with the box it had - either way the object answers like a fresh one with "its" box
        # the caller uses the arrays it got back as scratch space (sorts / overwrites them in place): they are the caller's
        ("CallerOverwritesReturnedArrays", None),
        ("SetBoundsMaybeRefused", ([b1[0][i] + 0.5 for i in range(N)], [b1[1][i] if i else b1[0][i] - 0.25 for i in range(N)])),
        # malformed inverse queries (a point with too few / too many coordinates, a NaN coordinate, a bare number): whether
        # the call raises or answers something, the object afterwards answers like a fresh one with its box
        ("BadQuery", "short"),
        ("BadQuery", "long"),
        ("BadQuery", "nan"),
        ("BadQuery", "scalar"),
    ]
    return ops


def argbytes(a):
    if isinstance(a, tuple):
        return tuple(argbytes(v) for v in a)
    if isinstance(a, np.ndarray):
        return (str(a.dtype), a.tobytes())
    return repr(a)


def apply(ev, op):
    name, arg = op
    before = argbytes(arg)
    if name == "CallerOverwritesItsBoundArrays":
        for a in getattr(ev, "_harness_handed_over", []):
            a[...] = a * 0.5 + 7.0
        return None, True
    if name == "BadQuery":
        y = {"short": [0.3] * (ev.numberOfFloatVariables - 1), "long": [0.3] * (ev.numberOfFloatVariables + 2),
             "nan": [float("nan")] + [0.3] * (ev.numberOfFloatVariables - 1), "scalar": 0.3}[arg]
        import warnings
        for fn, yy in ((ev.GetInverseImage, y), (ev.GetPreimages, np.array(y, dtype=np.double))):
            try:
                with warnings.catch_warnings():
                    warnings.simplefilter("ignore")
                    fn(yy)
            except Exception:
                pass
        return "asked", True
    if name == "SetBoundsMaybeRefused":
        try:
            ev.SetBounds(arg[0], arg[1])
            return "accepted", before == argbytes(arg)
        except Exception:
            return "refused", before == argbytes(arg)
    if name == "SetBounds":
        if isinstance(arg[0], np.ndarray):
            arg = (arg[0].copy(), arg[1].copy())
            ev._harness_handed_over = [arg[0], arg[1]]
        r = ev.SetBounds(arg[0], arg[1])
    else:
        r = getattr(ev, name)(arg)
    return r, before == argbytes(arg)


def same(a, b):
    if isinstance(a, np.ndarray) or isinstance(b, np.ndarray):
        return (isinstance(a, np.ndarray) and isinstance(b, np.ndarray) and a.dtype == b.dtype
                and a.shape == b.shape and a.tobytes() == b.tobytes())
    return a == b or (a is None and b is None)


def show(op):
    name, arg = op
    if isinstance(arg, tuple):
        return f"{name}({type(arg[0]).__name__} {np.asarray(arg[0]).tolist()}, {np.asarray(arg[1]).tolist()})"
    if isinstance(arg, np.ndarray):
        return f"{name}(array({arg.tolist()}, dtype={arg.dtype}))"
    return f"{name}({arg!r})"


def execute(N, m, seq, ops, init="B1"):
    """replay a call sequence on one fresh object, checking the oracle at every call; -> (messages, ev)"""
    lo, up = box("B1", N) if init in ("B1", "ro", "tuple", "deferred") else ([-1] * N, [1] * N)
    if init == "B1":
        lo_arr, up_arr = np.array(lo, dtype=np.double), np.array(up, dtype=np.double)
        ev = Evolvent(lo_arr, up_arr, N, m)
        ev._harness_handed_over = [lo_arr, up_arr]      # the caller's own arrays
    elif init == "ro":
        # bound arrays that refuse writes (a caller protecting its configuration)
        lo_arr, up_arr = np.array(lo, dtype=np.double), np.array(up, dtype=np.double)
        lo_arr.setflags(write=False)
        up_arr.setflags(write=False)
        ev = Evolvent(lo_arr, up_arr, N, m)
    elif init == "tuple":
        ev = Evolvent(tuple(lo), tuple(up), N, m)
    elif init == "deferred":
        # dimension and density first, the box later through SetBounds (the constructor's bound arguments left at their default)
        ev = Evolvent(numberOfFloatVariables=N, evolventDensity=m)
        ev.SetBounds(np.array(lo, dtype=np.double), np.array(up, dtype=np.double))
    else:
        ev = Evolvent(lo, up, N, m)
    cur = (np.array(lo, dtype=float), np.array(up, dtype=float))
    returned = []
    msgs = []
    for step, k in enumerate(seq):
        op = ops[k]
        if op[0] == "SetBounds":
            cur = (np.array(op[1][0], dtype=float), np.array(op[1][1], dtype=float))
        try:
            if op[0] == "CallerOverwritesReturnedArrays":
                for q, (arr, b, st) in enumerate(returned):
                    if arr.flags.writeable:
                        arr[...] = 123.25 + q
                        returned[q] = (arr, arr.tobytes(), st)
                continue
            r, untouched = apply(ev, op)
            if op[0] == "BadQuery":
                continue
            if op[0] == "SetBoundsMaybeRefused":
                if r == "accepted":
                    cur = (np.array(op[1][0], dtype=float), np.array(op[1][1], dtype=float))
                if not untouched:
                    msgs.append(f"N={N} m={m}: {show(op)} modified its argument")
                continue
        except Exception as e:
            msgs.append(f"N={N} m={m}: call {step + 1} {show(op)} after {[show(ops[j]) for j in seq[:step]]} raised "
                        f"{type(e).__name__}: {e}")
            break
        if not untouched:
            msgs.append(f"N={N} m={m}: {show(op)} modified its argument")
        fresh = Evolvent(cur[0], cur[1], N, m)
        try:
            rf, _ = apply(fresh, copy.deepcopy(op))
        except Exception as e:
            rf = ("fresh object raised", repr(e))
        if not same(r, rf):
            msgs.append(f"N={N} m={m}: {show(op)} returned {np.asarray(r).tolist() if r is not None else None} after "
                        f"{[show(ops[j]) for j in seq[:step]]}; a fresh object with the same bounds returns "
                        f"{np.asarray(rf).tolist() if not isinstance(rf, tuple) else rf}")
        for (arr, b, st) in returned:
            if arr.tobytes() != b:
                msgs.append(f"N={N} m={m}: array returned by call {st + 1} was changed by call {step + 1} {show(op)}")
        if isinstance(r, np.ndarray):
            returned.append((r, r.tobytes(), step))
    return msgs, ev


def _state(ev):
    return {k: v for k, v in vars(ev).items() if not k.startswith("_harness")}


def bfs(task):
    N, m, init = task
    ops = alphabet(N)
    msgs0, ev0 = execute(N, m, [], ops, init)
    seen = {digest(_state(ev0)): []}
    frontier = [[]]
    transitions = 0
    viol = []
    cap = 4000
    while frontier and len(seen) < cap:
        nxt = []
        for seq in frontier:
            for k in range(len(ops)):
                s2 = seq + [k]
                msgs, ev = execute(N, m, s2, ops, init)
                transitions += 1
                for msg in msgs:
                    viol.append(dict(driver="seq", N=N, m=m, init=init, seq=s2, message=msg, sig={}))
                if msgs:
                    continue
                d = digest(_state(ev))
                if d not in seen:
                    seen[d] = s2
                    nxt.append(s2)
            if len(viol) > 10:
                return len(seen), transitions, viol, False
        frontier = nxt
    return len(seen), transitions, viol, not frontier


def unmerged(task):
    N, m, init, L, first = task
    ops = alphabet(N)
    viol = []
    n = 0
    for tail in itertools.product(range(len(ops)), repeat=L - 1):
        seq = [first] + list(tail)
        msgs, ev = execute(N, m, seq, ops, init)
        n += 1
        # only the last call is new (shorter sequences are enumerated by smaller L)
        for msg in msgs:
            viol.append(dict(driver="seq", N=N, m=m, init=init, seq=seq, message=msg, sig={}))
        if len(viol) > 10:
            break
    return n, viol


def long_sequence(task):
    """one long deterministic call sequence on one object (hundreds of calls): every array ever returned must keep its
    bytes, every call must agree with a fresh object"""
    N, m, init = task
    lo, up = box("B1", N) if init == "B1" else ([-1] * N, [1] * N)
    ev = Evolvent(lo, up, N, m)
    fresh = Evolvent(lo, up, N, m)
    lo_f, up_f = np.array(lo, dtype=float), np.array(up, dtype=float)
    kept = []
    msgs = []
    n = 0
    for i in range(400):
        x = ((i * 0.6180339887498949) % 1.0) if i % 9 else (i % 2) * 1.0
        y = ev.GetImage(x)
        n += 1
        if not np.array_equal(y, fresh.GetImage(x)):
            msgs.append(f"N={N} m={m}: call {i + 1} of a long sequence, GetImage({x!r}) = {y.tolist()}, a fresh object gives "
                        f"{fresh.GetImage(x).tolist()}")
            break
        kept.append((i, y, y.tobytes()))
        if i % 5 == 0:
            q = lo_f + (up_f - lo_f) * ((i * 0.37) % 1.0)
            if ev.GetInverseImage(np.array(q)) != fresh.GetInverseImage(np.array(q)):
                msgs.append(f"N={N} m={m}: call {i + 1} of a long sequence, GetInverseImage({q.tolist()}) differs from a fresh object")
                break
        bad = next(((j, a) for j, a, b in kept if a.tobytes() != b), None)
        if bad:
            msgs.append(f"N={N} m={m}: the array returned by call {bad[0] + 1} of a long sequence was changed by call {i + 1}")
            break
    return n, msgs


def run(ctx):
    res = Result()
    th = ctx.thorough
    cfgs = CONFIGS if th else CONFIGS[:6]
    bcfgs = cfgs if th else cfgs + CONFIGS[-2:]      # read-only / tuple bounds: state search in quick as well
    out = pmap(bfs, bcfgs)
    states = trans = 0
    closed = {}
    for (N, m, init), (ns, nt, viol, cl) in zip(bcfgs, out):
        states += ns
        trans += nt
        closed[f"N={N},m={m},built from {init}"] = dict(states=ns, transitions=nt, closed=cl)
        res.merge_violations(viol)
    L = 5 if th else 4
    # the longest sequences for the first four configurations; one call less for the others (the alphabet has 19 operations)
    tasks = [(N, m, init, l, f) for ci, (N, m, init) in enumerate(cfgs) for l in range(1, (L if ci < 4 else L - 1) + 1)
             for f in range(len(alphabet(N)))]
    seqs = 0
    for t, (n, viol) in zip(tasks, pmap(unmerged, tasks)):
        seqs += n
        res.merge_violations(viol)
    ltasks = list(cfgs)
    for t, (n, msgs) in zip(ltasks, pmap(long_sequence, ltasks)):
        seqs += 1
        for msg in msgs:
            res.add_violation(dict(driver="long", N=t[0], m=t[1], init=t[2], message=msg, sig={}))
    res.cov = dict(
        states=states, transitions=trans, traces_validated_against_impl=seqs, evaluations=seqs + trans,
        distinct_nontrivial=seqs,
        rule="states = distinct digests of the Evolvent object's attributes (scratch vector bytes+dtype, bounds) reached by "
             "BFS over the 10-call alphabet, merged on equal complete content; traces = all call sequences up to the length "
             "bound without merging, each call compared with a fresh object",
        exhaustive=all(v["closed"] for v in closed.values()), bfs=closed, unmerged_length=L,
        alphabet=[show(o) for o in alphabet(2)],
        samples=[[show(alphabet(1)[k]) for k in (7, 0)], [show(alphabet(2)[k]) for k in (5, 8, 0)]],
    )
    res.assumptions = ["argument domain limited to the alphabet (floats inside the boxes, ints, lists and arrays)"]
    return res


def replay(rec):
    if rec.get("driver") == "long":
        return long_sequence((rec["N"], rec["m"], rec.get("init", "B1")))[1]
    msgs, _ = execute(rec["N"], rec["m"], rec["seq"], alphabet(rec["N"]), rec.get("init", "B1"))
    return msgs

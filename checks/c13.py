"""C13 - listener contract: complete, ordered, non-interfering notification.

(1) All 16 subclasses of the base Listener overriding a subset of its four callbacks x all batch
    compositions of n <= 4 pre-iterations followed by a Solve that performs 0..3 more x N in {1,2,3}:
    the event log (shared counter with the objective) must show one BeforeMethodStart before the first
    evaluation, one OnEndIteration per DoGlobalIteration call with exactly that call's trials in order,
    one OnMethodStop per Solve with the final solution; nothing may escape as an exception.
(2) Shipped listeners (console x 3 modes, static / ND / animation painters in all modes): alone, in
    pairs with a recorder and a console mode, and all together: trial set and Solution identical to the
    listener-free run; the console final report is tokenised format-agnostically."""
import io
import itertools
import os
import re
import shutil
import tempfile
import contextlib

import numpy as np

from mc.common import Result, pmap
from mc.env import EnvProblem, box
from mc.envs import make_env

from iOpt.solver import Solver
from iOpt.solver_parametrs import SolverParameters
from iOpt.method import listener as L

PROPERTY = "C13"
LEVEL = "model_checking"
CALLBACKS = ["BeforeMethodStart", "OnEndIteration", "OnMethodStop", "OnRefrash"]


def compositions(n):
    if n == 0:
        yield ()
        return
    for first in range(1, n + 1):
        for rest in compositions(n - first):
            yield (first,) + rest


def with_zero_batches(comp):
    """the composition itself and every way of inserting one DoGlobalIteration(0) call into it"""
    comp = tuple(comp)
    yield comp
    for i in range(len(comp) + 1):
        yield comp[:i] + (0,) + comp[i:]


def make_listener_class(mask, events):
    d = {}
    for b, nm in enumerate(CALLBACKS):
        if mask >> b & 1:
            def cb(self, *a, nm=nm):
                if nm == "OnEndIteration":
                    pts = a[0] if a else []
                    # third field: the list object itself - a listener may keep what it was given and read it later
                    events.append((nm, [(p.GetX(), tuple(np.asarray(p.GetY().floatVariables).tolist()), p.GetZ())
                                        for p in pts], pts))
                elif nm == "OnMethodStop":
                    sol = a[1] if len(a) > 1 else None
                    events.append((nm, sol, None if sol is None else
                                   (sol.numberOfGlobalTrials, sol.bestTrials[0].functionValues[0].value)))
                else:
                    events.append((nm,))
            d[nm] = cb
    return type(f"L{mask}", (L.Listener,), d)


def contract_case(task):
    N, mask, comp, extra = task["N"], task["mask"], tuple(task["comp"]), task["extra"]
    cfg = dict(N=N, box=("B0", "B1", "B2", "D")[N - 1], env=("abs13", "lin", "sin", "quad")[N - 1])
    lo, up = box(cfg["box"], N)
    f = make_env(cfg["env"], cfg)
    events = []

    fault_at = task.get("fault_at")

    def answer(k, y):
        if fault_at is not None and k == fault_at:
            raise RuntimeError("injected objective failure")
        events.append(("eval", tuple(y.tolist())))
        return f(k, y)
    p = EnvProblem(N, lo, up, answer)
    other = None
    foreign = []      # events recorded while an unrelated solver was working
    pre = sum(comp)
    msgs = []
    buf = io.StringIO()
    with contextlib.redirect_stdout(buf):
        try:
            s = Solver(p, SolverParameters(eps=0.0, r=2.0, itersLimit=max(1, pre + extra)))
            cls0 = make_listener_class(mask, events)
            if task.get("deep"):
                # a listener two levels below the base class that inherits its callbacks from the intermediate class
                cls0 = type("Grandchild", (type("Child", (cls0,), {}),), {"extra_attribute": 1})
            s.AddListener(cls0())
            twin_events = None
            if task.get("twin"):
                # a second, distinct listener object that compares equal to the first (value semantics, e.g. a dataclass)
                twin_events = []
                cls1 = make_listener_class(mask, twin_events)
                cls1.__eq__ = lambda self, other: True
                cls1.__hash__ = lambda self: 1
                s.AddListener(cls1())
            if task.get("other"):
                # an unrelated solver without listeners of its own, constructed after the listener was attached and
                # iterated between this solver's calls: the listener must hear nothing of it
                N2 = 1 if N > 1 else 2
                p2 = EnvProblem(N2, [0.0] * N2, [1.0] * N2, lambda k, y: float(np.sum(y)))
                other = Solver(p2, SolverParameters(eps=0.0, r=2.0, itersLimit=4))

            def poke(n=1):
                if other is not None:
                    e0 = len(events)
                    other.DoGlobalIteration(n)
                    foreign.extend(events[e0:])
            calls = []
            failed = False
            for b in comp:
                e0 = len(events)
                try:
                    s.DoGlobalIteration(b)
                    calls.append((b, events[e0:]))
                except RuntimeError:
                    failed = True      # the call that hit the injected failure: nothing is required of it
                poke()
            e0 = len(events)
            sol = s.Solve()
            solve_events = events[e0:]
            if other is not None:
                e0 = len(events)
                other.Solve()
                foreign.extend(events[e0:])
        except BaseException as e:
            over = [c for b, c in enumerate(CALLBACKS) if mask >> b & 1]
            return [f"N={N}: listener overriding {over}, batches {list(comp)} then Solve: {type(e).__name__}: {e}"]
    over = {c for b, c in enumerate(CALLBACKS) if mask >> b & 1}
    ctx = f"N={N}: listener overriding {sorted(over)}, batches {list(comp)} then Solve(+{extra})" + \
          (", listener class two levels below Listener" if task.get("deep") else "") + \
          (f", objective fails at evaluation {fault_at}" if fault_at else "") + (", unrelated solver in between" if other else "")
    if twin_events is not None:
        strip = lambda evs: [(e[0],) + tuple(e[1:2]) if e[0] == "OnEndIteration" else (e[0],) for e in evs if e[0] != "eval"]
        if strip(twin_events) != strip(events):
            msgs.append(f"{ctx}: a second listener that compares equal to the first received "
                        f"{len(strip(twin_events))} notifications, the first {len(strip(events))}")
    if foreign:
        msgs.append(f"{ctx}: the listener received {[e[0] for e in foreign]} while an unrelated solver was working")
    if fault_at is not None:
        # only the per-call contract of the calls that completed (and of Solve's iterations) is judged after a failure
        if "OnEndIteration" in over:
            for (b, evs) in calls:
                its = [e for e in evs if e[0] == "OnEndIteration"]
                evals = [e[1] for e in evs if e[0] == "eval"]
                if len(its) != 1 or [q[1] for q in its[0][1]] != evals:
                    msgs.append(f"{ctx}: OnEndIteration of a completed DoGlobalIteration({b}) listed "
                                f"{[[q[1] for q in i[1]] for i in its]}, the call evaluated {evals}")
            cur = []
            for e in solve_events:
                if e[0] == "eval":
                    cur.append(e[1])
                elif e[0] == "OnEndIteration":
                    got = [q[1] for q in e[1]]
                    if got != cur:
                        msgs.append(f"{ctx}: during Solve OnEndIteration listed {got}, evaluated since the last notification: {cur}")
                    cur = []
        return msgs
    # BeforeMethodStart
    if "BeforeMethodStart" in over:
        st = [i for i, e in enumerate(events) if e[0] == "BeforeMethodStart"]
        ev = [i for i, e in enumerate(events) if e[0] == "eval"]
        if len(st) != 1:
            msgs.append(f"{ctx}: BeforeMethodStart delivered {len(st)} times")
        elif ev and st[0] > ev[0]:
            msgs.append(f"{ctx}: BeforeMethodStart delivered after the first trial")
    if "OnEndIteration" in over:
        for (b, evs) in calls:
            its = [e for e in evs if e[0] == "OnEndIteration"]
            evals = [e[1] for e in evs if e[0] == "eval"]
            if len(its) != 1:
                msgs.append(f"{ctx}: DoGlobalIteration({b}) delivered {len(its)} OnEndIteration notifications")
                continue
            if evs[-1][0] != "OnEndIteration":
                msgs.append(f"{ctx}: OnEndIteration of DoGlobalIteration({b}) was not the last event of the call")
            got = [q[1] for q in its[0][1]]
            if got != evals:
                msgs.append(f"{ctx}: OnEndIteration of DoGlobalIteration({b}) listed trials {got}, the call evaluated {evals}")
            zs = [q[2] for q in its[0][1]]
            want = [f(0, np.array(y)) for y in evals]
            if got == evals and zs != want:
                msgs.append(f"{ctx}: OnEndIteration listed values {zs}, objective gave {want}")
        # inside Solve: one notification per iteration
        cur = []
        for e in solve_events:
            if e[0] == "eval":
                cur.append(e[1])
            elif e[0] == "OnEndIteration":
                got = [q[1] for q in e[1]]
                if got != cur:
                    msgs.append(f"{ctx}: during Solve OnEndIteration listed {got}, evaluated since the last notification: {cur}")
                cur = []
        if cur:
            msgs.append(f"{ctx}: during Solve {len(cur)} trials were never reported through OnEndIteration")
    if "OnMethodStop" in over:
        st = [e for e in solve_events if e[0] == "OnMethodStop"]
        if len(st) != 1:
            msgs.append(f"{ctx}: OnMethodStop delivered {len(st)} times for one Solve")
        else:
            if solve_events[-1][0] != "OnMethodStop":
                msgs.append(f"{ctx}: events after OnMethodStop: {[e[0] for e in solve_events[solve_events.index(st[0]) + 1:]]}")
            if st[0][1] is not s.GetResults():
                msgs.append(f"{ctx}: OnMethodStop did not receive the solver's own Solution object")
            total = len([e for e in events if e[0] == "eval"])
            vals = [v for _, v in p.log]
            if st[0][2] != (total, min(vals)):
                msgs.append(f"{ctx}: OnMethodStop saw (trials, best value) = {st[0][2]}, final is {(total, min(vals))}")
    # what the listener was given stays what it was: the lists kept from every notification, read after the run
    for j, e in enumerate([e for e in events if e[0] == "OnEndIteration"]):
        try:
            now = [(q.GetX(), tuple(np.asarray(q.GetY().floatVariables).tolist()), q.GetZ()) for q in e[2]]
        except Exception as ex:
            now = f"unreadable ({type(ex).__name__}: {ex})"
        if now != e[1]:
            msgs.append(f"{ctx}: the list of new trials handed to OnEndIteration number {j + 1} read {e[1]} inside the "
                        f"callback and reads {now} after the run")
            break
    nev = len([e for e in events if e[0] == "eval"])
    if nev != max(pre, max(1, pre + extra)):
        msgs.append(f"{ctx}: {nev} trials performed, expected {max(pre, max(1, pre + extra))}")
    return msgs


# ---------------------------------------------------------------- shipped listeners

def shipped_specs(th):
    """name -> (dimension, factory(dir))"""
    S = {}
    for mode in ("full", "custom", "result"):
        for N in (1, 2, 3):
            S[f"console-{mode}-N{N}"] = (N, lambda d, mode=mode: L.ConsoleFullOutputListener(mode=mode, iters=5))
    for mode in ("objective function", "only points", "interpolation", "approximation"):
        S[f"static1d-{mode}"] = (1, lambda d, mode=mode: L.StaticPaintListener("a.png", d, indx=0, mode=mode,
                                                                              isPointsAtBottom=(mode == "only points")))
    S["static1d-section-N2"] = (2, lambda d: L.StaticPaintListener("b.png", d, indx=1, mode="objective function"))
    for mode, calc in (("lines layers", "objective function"), ("lines layers", "interpolation"),
                       ("surface", "interpolation"), ("surface", "approximation")):
        S[f"staticnd-{mode}-{calc}"] = (2, lambda d, mode=mode, calc=calc: L.StaticNDPaintListener(
            "c.png", d, varsIndxs=[0, 1], mode=mode, calc=calc))
    S["staticnd-N3"] = (3, lambda d: L.StaticNDPaintListener("d.png", d, varsIndxs=[0, 2], mode="lines layers",
                                                            calc="objective function"))
    S["anim1d"] = (1, lambda d: L.AnimationPaintListener("e.png", d, isPointsAtBottom=False, toPaintObjFunc=True))
    S["anim1d-bottom"] = (1, lambda d: L.AnimationPaintListener("f.png", d, isPointsAtBottom=True, toPaintObjFunc=False))
    S["animnd"] = (2, lambda d: L.AnimationNDPaintListener("g.png", d, varsIndxs=[0, 1], toPaintObjFunc=True))
    S["animnd-N3"] = (3, lambda d: L.AnimationNDPaintListener("h.png", d, varsIndxs=[0, 2], toPaintObjFunc=True))
    return S


NUM = re.compile(r"[-+]?(?:\d+\.\d*|\.\d+|\d+)(?:[eE][-+]?\d+)?")


def run_with(N, names, refine=False):
    """one Solve with the named shipped listeners (and a recorder when 'rec' is in names)"""
    import matplotlib.pyplot as plt
    cfg = dict(N=N, box=("B1", "B1", "B2")[N - 1], env=("sin", "quad", "abs13")[N - 1])
    for nm in names:
        if nm.startswith("env:"):          # "env:<objective>:<box>" selects another objective / box for this run
            _, cfg["env"], cfg["box"] = nm.split(":")
    pre = [int(v) for nm in names if nm.startswith("pre:") for v in nm[4:].split(",")]   # "pre:4,5": batches before Solve
    names_all = list(names)
    names = [nm for nm in names if not nm.startswith(("env:", "pre:")) and nm not in ("swapout", "refine0")]
    lo, up = box(cfg["box"], N)
    f = make_env(cfg["env"], cfg)
    p = EnvProblem(N, lo, up, f)
    d = tempfile.mkdtemp(prefix="c13-")
    specs = shipped_specs(True)
    buf = io.StringIO()
    err = None
    events = []
    try:
        with contextlib.redirect_stdout(buf):
            long_run = cfg["env"] in ("lin",)
            s = Solver(p, SolverParameters(eps=(0.02 if N == 1 else 0.1) if not long_run else 0.0, r=2.5,
                                           itersLimit=((25 if N < 3 else 20) * (8 if refine else 1)) if not long_run else 700,
                                           refineSolution=refine))
            for nm in names:
                if nm == "rec":
                    s.AddListener(make_listener_class(7, events)())
                elif nm == "peek":
                    from mc.tree import Peeker
                    pk = type("PeekerL", (Peeker, L.Listener), {})()
                    s.AddListener(pk)
                else:
                    s.AddListener(specs[nm][1](d))
            try:
                if "refine0" in names_all:
                    # a refinement requested before any global iteration (this version refuses it): whatever it does,
                    # the listeners are afterwards served as on a new solver
                    try:
                        s.DoLocalRefinement(3)
                    except Exception:
                        pass
                for b_ in pre:
                    s.DoGlobalIteration(b_)
                if "swapout" in names_all:
                    # the user redirects the output elsewhere between the step-wise part and Solve (the old stream is closed)
                    buf2 = io.StringIO()
                    with contextlib.redirect_stdout(buf2):
                        buf.close()
                        sol = s.Solve()
                    buf = buf2
                else:
                    sol = s.Solve()
            except BaseException as e:
                err = f"{type(e).__name__}: {e}"
                sol = None
    finally:
        plt.close("all")
        shutil.rmtree(d, ignore_errors=True)
    if err:
        return dict(error=err)
    items = []
    for it in s.searchData:
        items.append((it.GetX(), tuple(np.asarray(it.GetY().floatVariables).tolist()), it.GetZ()))
    b = sol.bestTrials[0]
    out = dict(error=None, items=items[1:-1], best=(tuple(np.asarray(b.point.floatVariables).tolist()),
                                                     b.functionValues[0].value),
               nglobal=sol.numberOfGlobalTrials, nlocal=sol.numberOfLocalTrials, acc=sol.solutionAccuracy,
               printed=buf.getvalue(), probes=len(p.log) - sol.numberOfGlobalTrials,
               told=[e[1] for e in events if e[0] == "OnEndIteration"], order=[e[0] for e in events])
    return out


def console_report_ok(res):
    """tokenise everything printed from the start of the final report; labels and layout are not part of the oracle"""
    text = res["printed"]
    k = text.rfind("Result")
    tail = text[k:] if k >= 0 else text[-1500:]
    toks = NUM.findall(tail)
    ints = set()
    floats = []
    for t in toks:
        try:
            floats.append(float(t))
            if re.fullmatch(r"[-+]?\d+", t):
                ints.add(int(t))
        except ValueError:
            pass
    msgs = []
    if res["nglobal"] not in ints:
        msgs.append(f"final report does not show the global trial count {res['nglobal']}")
    if res["nlocal"] not in ints:
        msgs.append(f"final report does not show the local trial count {res['nlocal']}")
    pt, val = res["best"]
    if not any(abs(x - val) <= 5e-9 + 1e-9 * abs(val) for x in floats):
        msgs.append(f"final report does not show the solution value {val!r}")
    if not any(abs(x - res["acc"]) <= 5e-9 for x in floats):
        msgs.append(f"final report does not show the accuracy {res['acc']!r}")
    for c in pt:
        if not any(abs(x - c) <= 1e-6 * max(1.0, abs(c)) for x in floats):
            msgs.append(f"final report does not show the solution coordinate {c!r}")
    return msgs


def shipped_case(task):
    N, names, refine = task["N"], task["names"], bool(task.get("refine"))
    ref = run_with(N, [n for n in names if n.startswith(("env:", "pre:")) or n in ("swapout", "refine0")], refine)
    got = run_with(N, names, refine)
    ctx = f"N={N} listeners {names}" + (" refineSolution=True" if refine else "")
    if ref.get("error"):
        return [f"N={N} listener-free run failed: {ref['error']}"]
    if got.get("error"):
        return [f"{ctx}: Solve raised {got['error']}"]
    msgs = []
    if got["items"] != ref["items"]:
        msgs.append(f"{ctx}: the set of search trials differs from the listener-free run "
                    f"({len(got['items'])} vs {len(ref['items'])} trials)")
    for k in ("best", "nglobal", "nlocal", "acc"):
        if got[k] != ref[k]:
            msgs.append(f"{ctx}: Solution.{k} = {got[k]!r}, listener-free run gives {ref[k]!r}")
    if any(n.startswith("console") for n in names):
        msgs += [f"{ctx}: {m}" for m in console_report_ok(got)]
    if "rec" in names and not refine:
        # the recording listener, wherever it stands among the others: told about every search trial exactly once, in the
        # order the trials were made, after one BeforeMethodStart and before one OnMethodStop
        told = [t for batch in got["told"] for t in batch]
        if sorted(told) != sorted(got["items"]):
            msgs.append(f"{ctx}: the recording listener was told about {len(told)} trials, the search made {len(got['items'])}")
        order = got["order"]
        if not order or order[0] != "BeforeMethodStart" or order.count("BeforeMethodStart") != 1 \
                or order[-1] != "OnMethodStop" or order.count("OnMethodStop") != 1:
            msgs.append(f"{ctx}: the recording listener saw {order[:2]} ... {order[-2:]} "
                        f"({order.count('BeforeMethodStart')} BeforeMethodStart, {order.count('OnMethodStop')} OnMethodStop)")
    return msgs


def run(ctx):
    res = Result()
    th = ctx.thorough
    tasks = []
    nmax = 9 if th else 4
    for N in (1, 2, 3, 4) if th else (1, 2, 3):
        for mask in range(16):
            for n in range(0, (nmax if N < 3 else min(nmax, 7 if N == 3 else 5)) + 1):
                for comp0 in compositions(n):
                    for comp in with_zero_batches(comp0):
                        for extra in range(0, 4):
                            if n == 0 and extra == 0:
                                continue
                            if 0 in comp and extra not in (0, 2):
                                continue
                            tasks.append(dict(N=N, mask=mask, comp=list(comp), extra=extra))
                            if 0 not in comp and extra == 2 and mask in (2, 7, 15) and n >= 1:
                                tasks.append(dict(N=N, mask=mask, comp=list(comp), extra=extra, other=True))
                                tasks.append(dict(N=N, mask=mask, comp=list(comp), extra=extra, twin=True))
                                tasks.append(dict(N=N, mask=mask, comp=list(comp), extra=extra, deep=True))
                            if 0 not in comp and extra == 2 and mask in (2, 15) and n >= 2:
                                for fa in range(2, n + 1):
                                    tasks.append(dict(N=N, mask=mask, comp=list(comp), extra=extra, fault_at=fa))
    out = pmap(contract_case, tasks, chunksize=16)
    for t, msgs in zip(tasks, out):
        for m in msgs:
            res.add_violation(dict(driver="contract", **t, message=m, sig={}))
    specs = shipped_specs(th)
    mlp = [n for n in specs if "approximation" in n]
    names = [n for n in specs if n not in mlp]
    stasks = []
    for nm in names + (mlp if th else ctx.pick(mlp, 1)):
        stasks.append(dict(N=specs[nm][0], names=[nm]))
    painters = [n for n in names if not n.startswith("console")]
    pick = painters if th else ctx.pick(painters, 5)
    for nm in pick:
        N = specs[nm][0]
        for mode in ("full", "custom", "result") if th else (("full", "custom", "result")[(ctx.seed + len(nm)) % 3],):
            stasks.append(dict(N=N, names=["rec", f"console-{mode}-N{N}", nm]))
    for N in (1, 2, 3):
        allN = [n for n in names if specs[n][0] == N]
        stasks.append(dict(N=N, names=["rec"] + allN))
        # the first iterations made through DoGlobalIteration(k > 1) before Solve: the report counts trials, not calls
        for mode in ("full", "custom", "result"):
            for pre in ("pre:4,5", "pre:7", "pre:2,2,2,6"):
                stasks.append(dict(N=N, names=[f"console-{mode}-N{N}", pre]))
        # the recording listener added AFTER a console listener (and before it), the first iterations in batches; a refinement
        # requested before any iteration
        for mode in ("full", "custom", "result"):
            stasks.append(dict(N=N, names=[f"console-{mode}-N{N}", "rec", "pre:4,5"]))
            stasks.append(dict(N=N, names=["rec", f"console-{mode}-N{N}", "pre:3,1,2"]))
        stasks.append(dict(N=N, names=["rec", "refine0", "pre:2,3"]))
        stasks.append(dict(N=N, names=[f"console-full-N{N}", "rec", "refine0"]))
        # a read-only listener that walks the search information partly; the output stream replaced before Solve
        stasks.append(dict(N=N, names=["peek", "pre:3,2"]))
        stasks.append(dict(N=N, names=["peek", f"console-full-N{N}"]))
        for mode in ("full", "result"):
            stasks.append(dict(N=N, names=[f"console-{mode}-N{N}", "pre:4,5", "swapout"]))
        # a long run (700 trials, minimum at the end of the curve) with a recorder and each console mode
        if N == 1:
            stasks.append(dict(N=1, names=["rec", "env:lin:B1"]))
            stasks.append(dict(N=1, names=["rec", "console-custom-N1", "env:lin:B1"]))
        # an objective that is exactly 0.0 at its best trial (first trial of |u - 1/2| on [0,1]) and a constant one
        if N == 1:
            for mode in ("full", "custom", "result"):
                stasks.append(dict(N=1, names=[f"console-{mode}-N1", "env:sym:B0"]))
                stasks.append(dict(N=1, names=[f"console-{mode}-N1", "env:const:B1"]))
        # with the local refinement switched on the final report must still be the returned Solution
        for mode in ("full", "custom", "result"):
            stasks.append(dict(N=N, names=[f"console-{mode}-N{N}"], refine=True))
        stasks.append(dict(N=N, names=["rec"] + ([n for n in allN if not n.startswith("console")][:1] if th else []), refine=True))
    sout = pmap(shipped_case, stasks)
    for t, msgs in zip(stasks, sout):
        for m in msgs:
            res.add_violation(dict(driver="shipped", **t, message=m, sig={}))
    res.cov = dict(
        states=len(tasks), transitions=len(tasks) + len(stasks), traces_validated_against_impl=len(tasks) + len(stasks),
        evaluations=len(tasks) + len(stasks), distinct_nontrivial=len([t for t in tasks if t["mask"] and len(t["comp"]) > 1]),
        rule="contract part: one execution per (dimension, subset of overridden callbacks (16), composition of n <= nmax "
             "pre-iterations into DoGlobalIteration batches, 0..3 further iterations inside Solve); non-trivial = a "
             "non-empty subset with at least two batches; shipped part: one pair of executions (with / without listeners) "
             "per listener set",
        exhaustive=True, contract_executions=len(tasks), shipped_sets=len(stasks), nmax=nmax,
        shipped_listeners=sorted(specs), samples=[tasks[len(tasks) // 2], stasks[0], stasks[-1]],
    )
    res.assumptions = ["pictures are written to a temporary directory with the Agg backend and are not inspected",
                       "console report judged by numeric tokens only (labels/layout free)"]
    return res


def replay(rec):
    if rec["driver"] == "contract":
        return contract_case(rec)
    return shipped_case(rec)

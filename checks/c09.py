"""C09 - the inverse image is consistent with the image.

(1) all cells for small (N, m) on four boxes: GetInverseImage / GetPreimages of the cell centre and of
    2^N points near the cell corners return exactly the left end of the subinterval; image(inverse(y))
    is within half a cell of y; inverse(image(x)) is x rounded down to the subinterval grid; x=1 belongs
    to the last subinterval.  N=1: both maps affine, exact to 4 ulp;
(2) inverse product on the extracted orientation automaton: for every state and digit the inverse at the
    witness depth mirrors the forward machine;
(3) deep replay at the full density for every (N, m), N*m <= 50."""
import itertools
import math

import numpy as np

from mc.common import Result, pmap
from mc import curve
from mc.env import box, BOXES
from checks.c07 import automata, deep_traces, _extract, expected_centre
from iOpt.evolvent.evolvent import Evolvent

PROPERTY = "C09"
LEVEL = "model_checking"


def cells_chunk(task):
    N, m, bx, a, b = task["N"], task["m"], task["box"], task["a"], task["b"]
    lo, up = box(bx, N)
    ev = curve.make_ev(N, m, bx, task.get("via"))
    if task.get("via"):
        bx = f"{bx} (set with SetBounds on an evolvent built for {task['via']})"
    n = 2 ** (N * m)
    w = (np.array(up, dtype=float) - np.array(lo, dtype=float)) / 2 ** m
    msgs = []
    q = 0
    corners = list(itertools.product((-0.49, 0.49), repeat=N))
    for i in range(a, b):
        left = i / n
        xs = (left, (i + 0.3) / n, math.nextafter((i + 1) / n, 0.0))
        y = ev.GetImage(xs[0])
        for x in xs:
            yy = ev.GetImage(x)
            back = ev.GetInverseImage(yy)
            q += 1
            if back != left:
                msgs.append(f"N={N} m={m} box={bx}: inverse(image({x!r})) = {back!r}, expected the left end {left!r} of subinterval {i}")
        for fn, name in ((ev.GetInverseImage, "GetInverseImage"), (ev.GetPreimages, "GetPreimages")):
            for c in ([(0.0,) * N] + corners) if name == "GetInverseImage" or i % 4 == 0 else [(0.0,) * N]:
                yy = y + np.array(c) * w
                back = fn(yy)
                q += 1
                if back != left:
                    msgs.append(f"N={N} m={m} box={bx}: {name}({yy.tolist()}) = {back!r}; the point lies in the cell of "
                                f"subinterval {i}, whose left end is {left!r}")
                    continue
                img = ev.GetImage(back)
                if np.any(np.abs(img - yy) > 0.5 * w * (1 + 1e-9) + 1e-9 * np.abs(yy)):
                    msgs.append(f"N={N} m={m} box={bx}: image(inverse(y)) = {img.tolist()} is more than half a cell from "
                                f"y = {yy.tolist()}")
        if len(msgs) > 8:
            break
    if a == 0 and b == n and n <= 2 ** 10 and not msgs:
        msgs += curve.query_mix(ev, N, m, lo, up, f"N={N} m={m} box={bx}")
        if bx.startswith("I:"):
            # the cell centres are the integers: queries given as Python int lists and as integer arrays
            side = 2 ** m
            for i in range(n):
                left = i / n
                c = ev.GetImage(left)
                ci = [int(round(float(v))) for v in c]
                for arg, kind in ((ci, "list of Python ints"), (np.array(ci, dtype=np.int64), "int64 array")):
                    for fn, name in ((ev.GetInverseImage, "GetInverseImage"), (ev.GetPreimages, "GetPreimages")):
                        back = fn(arg)
                        q += 1
                        if back != left:
                            msgs.append(f"N={N} m={m} box={bx}: {name}({kind} {ci}) = {back!r}; the point is the centre of "
                                        f"the cell of subinterval {i}, whose left end is {left!r}")
                            break
                    if msgs:
                        break
                y2 = ev.GetImage(left)
                if not np.array_equal(y2, c):
                    msgs.append(f"N={N} m={m} box={bx}: after an integer-typed inverse query GetImage({left!r}) returns "
                                f"{y2.tolist()} instead of {c.tolist()}")
                if msgs:
                    break
    if b == n:
        back = ev.GetInverseImage(ev.GetImage(1.0))
        q += 1
        if back != (n - 1) / n:
            msgs.append(f"N={N} m={m} box={bx}: inverse(image(1.0)) = {back!r}, expected {(n - 1) / n!r}")
    return q, msgs[:8]


def n1_task(bx):
    from mc.env import n1_bounds
    lo, up, lo_arr, up_arr = n1_bounds(bx)
    ev = Evolvent(lo_arr, up_arr, 1, 10)
    msgs = []
    K = 1 << 10
    side = up[0] - lo[0]
    scale = max(abs(lo[0]), abs(up[0]))
    for i in range(K + 1):
        x = i / K
        y = lo[0] + x * side
        bx_ = float(ev.GetInverseImage(np.array([y])))
        # rounding of y itself is worth up to ulp(scale)/side in x
        tolx = 4 * math.ulp(1.0) + 4 * math.ulp(scale) / side
        if abs(bx_ - x) > tolx:
            msgs.append(f"N=1 box={bx}: GetInverseImage({y!r}) = {bx_!r}, affine map gives {x!r}")
        arr = ev.GetImage(x)
        img = float(arr[0])
        if i in (0, 1, K // 2, K) and arr.flags.writeable:
            arr[...] = 777.0       # the caller uses the array it got back as scratch space
        back = float(ev.GetPreimages(np.array([img])))
        if abs(back - x) > tolx:
            msgs.append(f"N=1 box={bx}: inverse(image({x!r})) = {back!r}")
        if abs(float(ev.GetImage(bx_)[0]) - y) > 4 * math.ulp(scale):
            msgs.append(f"N=1 box={bx}: image(inverse({y!r})) = {float(ev.GetImage(bx_)[0])!r}")
    return 3 * (K + 1), msgs[:5]


def product_task(task):
    """inverse product: every (state, digit) at the witness depth"""
    N, A = task["N"], task["A"]
    B = 2 ** N
    msgs = []
    q = 0
    corners = list(itertools.product((-0.49, 0.49), repeat=N))
    for s in range(A.nstates()):
        p = A.witness[s]
        k = len(p) + 1
        ev = curve.unit_ev(N, k)
        for d in range(B):
            digs = p + [d]
            left, w = curve.x_of_prefix(N, digs)
            c = expected_centre(A, digs)
            for cr in [(0.0,) * N] + corners:
                y = c + np.array(cr) * 2.0 ** -k
                back = ev.GetInverseImage(y)
                q += 1
                if back != left:
                    msgs.append(f"N={N}: state {s} (witness {p}), digit {d}: GetInverseImage({y.tolist()}) at density {k} = "
                                f"{back!r}, the forward machine puts this cell at subinterval left end {left!r}")
    return q, msgs[:8]


def deep_task(task):
    N, m, A = task["N"], task["m"], task["A"]
    ev = curve.unit_ev(N, m)
    msgs = []
    cnt = 0
    seen = set()
    for digs in deep_traces(A, N, m, pads=task["pads"]):
        key = tuple(digs)
        if key in seen:
            continue
        seen.add(key)
        left, w = curve.x_of_prefix(N, digs)
        c = expected_centre(A, digs)
        sg = np.array([0.49 if (len(seen) >> t) & 1 else -0.49 for t in range(N)])
        for y in (c, c + sg * 2.0 ** -m):
            back = ev.GetInverseImage(y)
            cnt += 1
            if back != left:
                msgs.append(f"N={N} m={m}: GetInverseImage({y.tolist()}) = {back!r}; the automaton trace {digs} puts this "
                            f"cell at subinterval left end {left!r}")
        # round trips through the real forward map at the full density
        yimg = ev.GetImage(left + w / 2)
        back = ev.GetInverseImage(yimg)
        cnt += 1
        if back != left:
            msgs.append(f"N={N} m={m}: inverse(image({left + w / 2!r})) = {back!r}, expected the left end {left!r} "
                        f"of the subinterval with digits {digs}")
        y2 = yimg + sg * 2.0 ** -m
        img2 = ev.GetImage(ev.GetInverseImage(y2))
        cnt += 1
        if np.abs(img2 - y2).max() > 0.5 * 2.0 ** -m:
            msgs.append(f"N={N} m={m}: image(inverse(y)) = {img2.tolist()} is more than half a cell from y = {y2.tolist()}")
        if len(msgs) > 5:
            break
    return cnt, msgs


def run(ctx):
    res = Result()
    th = ctx.thorough
    bound = 16 if th else 12
    tasks = []
    for (N, m) in curve.small_configs(bound):
        n = 2 ** (N * m)
        for bx in BOXES:
            if n > 2 ** 13 and bx not in ("B0", "B2"):
                continue
            step = max(64, n // 32)
            for a in range(0, n, step):
                tasks.append(dict(N=N, m=m, box=bx, a=a, b=min(n, a + step)))
    # a unit box at 1e10, integer-typed bounds, and the box whose cell centres are the integers (integer-typed queries)
    for (N, m) in curve.small_configs(8 if not th else 10):
        for bx in ("B4", "Z", "Zh", "E", "D", "S", "F", "T", "U", f"I:{m}", "B0c"):
            tasks.append(dict(N=N, m=m, box=bx, a=0, b=2 ** (N * m)))
    # the same queries with the box configured through SetBounds (every ordered pair of boxes)
    for (N, m) in curve.small_configs(8 if not th else 10):
        for via, bx in curve.VIA_PAIRS:
            tasks.append(dict(N=N, m=m, box=bx, via=via, a=0, b=2 ** (N * m)))
    tasks.sort(key=lambda t: -(t["b"] - t["a"]) * t["m"] * 2 ** t["N"])
    nq = 0
    for t, (q, msgs) in zip(tasks, pmap(cells_chunk, tasks)):
        nq += q
        for msg in msgs:
            res.add_violation(dict(driver="cells", **t, message=msg, sig={}))
    n1 = 0
    from mc.env import N1_EXTRA
    for bx, (k, msgs) in zip(BOXES + N1_EXTRA, pmap(n1_task, list(BOXES + N1_EXTRA))):
        n1 += k
        for msg in msgs:
            res.add_violation(dict(driver="n1", box=bx, message=msg, sig={}))
    Ns = (2, 3, 4, 5) if th else (2, 3, 4)
    auts = automata(ctx, Ns)
    nstates = ntrans = prod = 0
    ptasks = []
    for N in Ns:
        A = auts[N]
        if isinstance(A, str):
            res.add_violation(dict(driver="automaton", N=N, message=A, sig={}))
            continue
        nstates += A.nstates()
        ntrans += len(A.trans)
        ptasks.append(dict(N=N, A=A))
    for t, (q, msgs) in zip(ptasks, pmap(product_task, ptasks)):
        prod += q
        for msg in msgs:
            res.add_violation(dict(driver="product", N=t["N"], message=msg, sig={}))
    dtasks = []
    for (N, m) in curve.deep_configs(50):
        if N not in auts or isinstance(auts[N], str):
            continue
        pads = (0, 1, 2) if th else ((m + ctx.seed + 2) % 3,)
        dtasks.append(dict(N=N, m=m, A=auts[N], pads=pads))
    dtasks.sort(key=lambda t: -t["m"] * t["m"] * 2 ** t["N"] * t["A"].nstates())
    deep = 0
    for t, (k, msgs) in zip(dtasks, pmap(deep_task, dtasks)):
        deep += k
        for msg in msgs:
            res.add_violation(dict(driver="deep", N=t["N"], m=t["m"], pads=list(t["pads"]), message=msg, sig={}))
    res.cov = dict(
        states=nstates, transitions=ntrans, traces_validated_against_impl=prod + deep,
        evaluations=nq + n1 + prod + deep, distinct_nontrivial=nq,
        rule="all-cells part: inverse queries (centre, corner-near points, three x per subinterval) for every subinterval of "
             "every (N, m) with N*m <= bound on the boxes (distinct non-trivial); states/transitions of the orientation "
             "automaton; traces = inverse-product queries per (state, digit) + deep replays at full density",
        exhaustive=True, all_cells_bound=bound, inverse_queries=nq, product_queries=prod, deep_replays=deep,
        samples=[dict(N=2, m=3, box="B1", subinterval=5, query="centre and 4 corner-near points")],
    )
    res.assumptions = ["points exactly on a cell boundary are not queried (the statement assigns them to no cell)"]
    return res


def replay(rec):
    d = rec["driver"]
    if d == "cells":
        return cells_chunk(rec)[1]
    if d == "n1":
        return n1_task(rec["box"])[1]
    A = _extract((rec["N"], 1))
    if isinstance(A, str):
        return [A]
    if d == "product":
        return product_task(dict(N=rec["N"], A=A))[1]
    if d == "deep":
        return deep_task(dict(N=rec["N"], m=rec["m"], A=A, pads=tuple(rec["pads"])))[1]
    return []

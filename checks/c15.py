"""C15 - benchmark evaluation is a pure function of the point.

Canonical-state BFS over construction / evaluation histories, per family: three objects A = F(k1),
B = F(k2), C = F(k1) and two points (one on a branch boundary where the family has branches);
operations: construct X, evaluate X at p with a fresh or a reused value holder, through a new Point object
or through one Point object that the caller moves in place.  State = digest of all
constructed instances + the family's module-level tables.  BFS to closure with merging and,
independently, all operation sequences up to a length without merging.  Oracle per evaluation: the
returned object IS the supplied holder, its value equals the reference value computed in a fresh
sub-process, the point array is unchanged (bytes and dtype)."""
import importlib
import itertools
import json
import math
import os
import subprocess
import sys

import numpy as np

from mc.common import Result, pmap, VERIF
from mc.digest import digest

from iOpt.trial import Point, FunctionValue, FunctionType

PROPERTY = "C15"
LEVEL = "model_checking"


def fam_specs():
    S = {}
    S["Hill"] = dict(cls=("iOpt.problems.hill", "Hill"), keys=[(3,), (4,)], points=[[0.37], [0.0], [1.0]],
                     mods=["iOpt.problems.Hill.hill_generation"])
    S["Shekel"] = dict(cls=("iOpt.problems.shekel", "Shekel"), keys=[(7,), (8,)], points=[[4.2], [10.0], [0.0]],
                       mods=["iOpt.problems.Shekel.shekel_generation"])
    S["Shekel4"] = dict(cls=("iOpt.problems.shekel4", "Shekel4"), keys=[(1,), (3,)],
                        points=[[4.0, 4.0, 4.0, 4.0], [1.5, 7.25, 3.0, 9.0], [4.7, 4.0, 3.2, 4.9]],
                        mods=["iOpt.problems.Shekel4.shekel4_generation"])
    S["Grishagin"] = dict(cls=("iOpt.problems.grishagin", "Grishagin"), keys=[(1,), (2,)],
                          points=[[0.066182, 0.582587], [1.0, 0.0], [0.25, 0.066182], [0.582587, 0.25]],
                          mods=["iOpt.problems.grishagin_function.grishagin_generation"])
    S["Rastrigin"] = dict(cls=("iOpt.problems.rastrigin", "Rastrigin"), keys=[(2,), (3,)],
                          points=[[0.0, 0.0, 0.0], [-2.2, 1.8, 0.5]], mods=[])
    S["XSquared"] = dict(cls=("iOpt.problems.xsquared", "XSquared"), keys=[(2,), (3,)],
                         points=[[0.0, 0.0, 0.0], [-1.0, 1.0, 0.25], [1.0, 1.0, 1.0]], mods=[])
    S["StronginC3"] = dict(cls=("iOpt.problems.stronginC3", "StronginC3"), keys=[(), ()],
                           points=[[0.941176, 0.941176], [2.0, 1.5]], mods=[],
                           fids=[("O", 0), ("C", 0), ("C", 1), ("C", 2)])
    S["GKLS2"] = dict(cls=("iOpt.problems.GKLS", "GKLS"), keys=[(2, 1), (2, 2)], points="gkls", mods=[])
    S["GKLS4"] = dict(cls=("iOpt.problems.GKLS", "GKLS"), keys=[(4, 5), (4, 6)], points="gkls", mods=[])
    return S


def build(spec, key):
    mod, cls = spec["cls"]
    return getattr(importlib.import_module(mod), cls)(*key)


def points_of(spec, fam):
    if spec["points"] != "gkls":
        return [np.array(p, dtype=np.double) for p in spec["points"]]
    # a ball centre (branch: 'coincides with the minimiser'), a point inside the same ball, a point just inside another
    # ball's boundary, a paraboloid point, points inside two of the later balls
    g = build(spec, spec["keys"][0])
    m = g.function.GKLS_minima
    M, rho = np.array(m.local_min), np.array(m.rho)
    n = M.shape[1]
    e = np.zeros(n)
    e[0] = 1.0
    return [M[1].copy(), M[1] + e * rho[1] * 0.5, M[2] + e * rho[2] * (1 - 1e-9), np.full(n, 0.3),
            M[3] + e * rho[3] * 0.4, M[9] - e * rho[9] * 0.7]


def holder(fid):
    if fid is None:
        return FunctionValue()
    t, i = fid
    return FunctionValue(FunctionType.OBJECTIV if t == "O" else FunctionType.CONSTRAINT, i)


def ops_of(spec, npts):
    fids = spec.get("fids", [None])
    ops = [("new", x) for x in "ABC"]
    for x in "ABC":
        for j in range(npts):
            for fid in fids:
                for reuse in (False, True):
                    for pmode in (0, 1):
                        ops.append(("eval", x, j, fid, reuse, pmode))
    return ops


def dim_of(obj):
    return int(obj.numberOfFloatVariables)


def reference_values(fam):
    """(member key index, point index, fid) -> value, computed in this process (called in a fresh sub-process)"""
    spec = fam_specs()[fam]
    pts = points_of(spec, fam)
    out = {}
    for ki, key in enumerate(spec["keys"]):
        for j, p in enumerate(pts):
            for fid in spec.get("fids", [None]):
                obj = build(spec, key)       # one evaluation per object: the reference has no history at all
                n = dim_of(obj)
                v = obj.Calculate(Point(np.array(p[:n], dtype=np.double), []), holder(fid)).value
                out[f"{ki}|{j}|{fid}"] = float(v).hex()
    return out


def dump_refs():
    print("REFS" + json.dumps({fam: reference_values(fam) for fam in fam_specs()}))


def fresh_refs():
    env = dict(os.environ)
    p = subprocess.run([sys.executable, "-c", "from checks import c15; c15.dump_refs()"], cwd=VERIF, env=env,
                       capture_output=True, text=True)
    line = [l for l in p.stdout.splitlines() if l.startswith("REFS")]
    if not line:
        raise RuntimeError("reference sub-process failed: " + p.stderr[-800:])
    return json.loads(line[0][4:])


class World:
    """replays an operation history; the same process may carry module state from earlier histories - by the property
    that must not matter"""

    def __init__(self, fam, refs):
        self.fam = fam
        self.spec = fam_specs()[fam]
        self.pts = points_of(self.spec, fam)
        self.ops = ops_of(self.spec, len(self.pts))
        self.refs = refs
        self.mods = [importlib.import_module(m) for m in self.spec["mods"]]

    def run(self, seq, check_from=0, objs=None, holders=None):
        objs = {} if objs is None else objs
        holders = {} if holders is None else holders
        msgs = []
        keyidx = {"A": 0, "B": 1, "C": 0}
        for step, k in enumerate(seq):
            op = self.ops[k]
            if op[0] == "new":
                objs[op[1]] = build(self.spec, self.spec["keys"][keyidx[op[1]]])
                continue
            _, x, j, fid, reuse, pmode = op
            if x not in objs:
                return None, None     # not enabled
            obj = objs[x]
            n = dim_of(obj)
            if pmode == 0:
                # a new Point object on a new array
                arr = np.array(self.pts[j][:n], dtype=np.double)
                pt = Point(arr, [])
            else:
                # the caller keeps ONE Point object per dimension and moves it in place (what a solver loop may do)
                pt = holders.get(("point", n))
                if pt is None:
                    pt = holders[("point", n)] = Point(np.array(self.pts[j][:n], dtype=np.double), [])
                else:
                    pt.floatVariables[:] = self.pts[j][:n]
                arr = pt.floatVariables
            before = (str(arr.dtype), arr.tobytes())
            hk = (x, str(fid))
            h = holders.get(hk) if reuse else None
            if h is None:
                h = holder(fid)
                holders[hk] = h
            ret = obj.Calculate(pt, h)
            if step < check_from:
                continue
            ctx = f"{self.fam}: history {[self.show(i) for i in seq[:step + 1]]}"
            if ret is not h:
                msgs.append(f"{ctx}: Calculate did not return the supplied value holder")
            want = float.fromhex(self.refs[f"{keyidx[x]}|{j}|{fid}"])
            got = getattr(ret, "value", None)
            if not (got == want):
                msgs.append(f"{ctx}: value {got!r}, a fresh process evaluating the same member at the same point gives {want!r}")
            if h.value != got:
                msgs.append(f"{ctx}: the value is not stored in the supplied holder")
            if (str(arr.dtype), arr.tobytes()) != before:
                msgs.append(f"{ctx}: the point array was modified")
        return msgs, objs

    def show(self, k):
        op = self.ops[k]
        if op[0] == "new":
            return f"{op[1]}=new"
        return (f"{op[1]}.Calculate(p{op[2]}{'' if op[3] is None else ',' + str(op[3])}{',reused holder' if op[4] else ''}"
                f"{',same Point object moved in place' if op[5] else ''})")

    def state(self, objs):
        tabs = []
        for m in self.mods:
            for name, v in sorted(vars(m).items()):
                if isinstance(v, (np.ndarray, list, dict, tuple)) and not name.startswith("__"):
                    tabs.append((name, digest(v)))
        return digest([sorted((k, digest(vars(o))) for k, o in objs.items()), tabs])


def bfs(task):
    fam, refs, cap = task["fam"], task["refs"], task["cap"]
    W = World(fam, refs)
    msgs, objs = W.run([])
    seen = {W.state(objs): []}
    tables0 = [digest(getattr(m, n)) for m in W.mods for n in sorted(vars(m)) if isinstance(getattr(m, n), np.ndarray)]
    frontier = [[]]
    viol = []
    trans = 0
    closed = False
    depth = 0
    while frontier and len(seen) < cap:
        nxt = []
        depth += 1
        for seq in frontier:
            for k in range(len(W.ops)):
                s2 = seq + [k]
                msgs, objs = W.run(s2, check_from=len(seq))
                if msgs is None:
                    continue
                trans += 1
                for m in msgs:
                    viol.append(dict(driver="history", fam=fam, seq=s2, message=m, sig={}))
                st = W.state(objs)
                if st not in seen:
                    seen[st] = s2
                    nxt.append(s2)
            if len(viol) > 5:
                return len(seen), trans, viol, False, depth
        frontier = nxt
        if not frontier:
            closed = True
    tables1 = [digest(getattr(m, n)) for m in W.mods for n in sorted(vars(m)) if isinstance(getattr(m, n), np.ndarray)]
    if tables0 != tables1:
        viol.append(dict(driver="tables", fam=fam, message=f"{fam}: module-level coefficient tables changed during the exploration", sig={}))
    return len(seen), trans, viol, closed, depth


def unmerged(task):
    fam, refs, L, first = task["fam"], task["refs"], task["L"], task["first"]
    W = World(fam, refs)
    evals = [k for k, op in enumerate(W.ops) if op[0] == "eval"]
    news = [k for k, op in enumerate(W.ops) if op[0] == "new"]
    viol = []
    n = 0
    # one continuing history on persistent objects: it contains every evaluation sequence of length L that starts
    # with `first` as a contiguous piece; the objects are rebuilt every 500 sequences so that short histories from a
    # fresh construction are included as well
    objs, holders, hist = {}, {}, []
    for tail in itertools.product(evals, repeat=L - 1):
        if n % 500 == 0:
            objs, holders, hist = {}, {}, list(news)
            W.run(news, objs=objs, holders=holders)
        seq = [first] + list(tail)
        msgs, _ = W.run(seq, objs=objs, holders=holders)
        n += 1
        for m in msgs or ():
            viol.append(dict(driver="history", fam=fam, seq=hist + seq, message=m, sig={}))
        hist = (hist + seq)[-40:] if len(hist) > 60 else hist + seq
        if len(viol) > 5:
            break
    return n, viol


def deep_history(task):
    """thousands of evaluations on ONE instance, heavily skewed towards one point (every point of the family's alphabet
    takes its turn as the hot one), every value compared with the history-free reference"""
    fam, refs, reps = task["fam"], task["refs"], task["reps"]
    W = World(fam, refs)
    spec = W.spec
    fids = spec.get("fids", [None])
    msgs = []
    count = 0
    for order in (list(range(len(W.pts))), list(range(len(W.pts)))[::-1]):
      obj = build(spec, spec["keys"][0])      # a new instance for each order in which the points take their turn
      n = dim_of(obj)
      for hot in order:
        for i in range(reps):
            j = hot if i % 50 else (i // 50) % len(W.pts)
            fid = fids[(i // 7) % len(fids)]
            arr = np.array(W.pts[j][:n], dtype=np.double)
            got = obj.Calculate(Point(arr, []), holder(fid)).value
            count += 1
            want = float.fromhex(refs[f"0|{j}|{fid}"])
            if not (got == want):
                msgs.append(f"{fam}: evaluation number {count} on one instance (point p{j}, {i} evaluations into the stretch "
                            f"in which p{hot} is evaluated almost exclusively; hot points in the order {order}) gives {got!r}, "
                            f"a fresh instance gives {want!r}")
                return count, msgs
    return count, msgs


def lattice_sweep(task):
    """every point of a decimal lattice over the box (coordinates that are not dyadic, so that differences with the
    generator's constants round): the evaluation returns the supplied holder, leaves the point's bytes and dtype
    alone, and gives the same value when the point is evaluated again after all the others"""
    fam, ki, per_axis = task["fam"], task["ki"], task["per_axis"]
    spec = fam_specs()[fam]
    obj = build(spec, spec["keys"][ki])
    n = dim_of(obj)
    lo = np.array(obj.lowerBoundOfFloatVariables, dtype=float)
    up = np.array(obj.upperBoundOfFloatVariables, dtype=float)
    axes = [[lo[i] + (up[i] - lo[i]) * min(1.0, (j + 0.137 * ((i + j) % 3)) / (per_axis - 1)) for j in range(per_axis)]
            for i in range(n)]
    if task.get("decimal"):
        # decimal literals of very different magnitudes (0.9 ... 0.001, both signs, 0): small coordinates far from the
        # generator's centres, where a subtraction and re-addition does not round-trip
        dec = [0.9, 0.7, 0.5, 0.3, 0.1, 0.05, 0.01, 0.001]
        dec = sorted([-v for v in dec] + dec + [0.0])
        if n == 3:
            dec = dec[::2]
        elif n >= 4:
            dec = [-0.7, -0.3, -0.05, 0.01, 0.1, 0.5, 0.9]
        axes = [sorted({v for v in dec if lo[i] <= v <= up[i]} | {lo[i] + (up[i] - lo[i]) * abs(v) for v in dec})
                for i in range(n)]
    fid = spec.get("fids", [None])[0]
    msgs, first = [], []
    count = 0
    for c in itertools.product(*axes):
        arr = np.array(c, dtype=np.double)
        keep = arr.tobytes()
        h = holder(fid)
        out = obj.Calculate(Point(arr, []), h)
        count += 1
        if out is not h:
            msgs.append(f"{fam}{spec['keys'][ki]}: Calculate at {list(c)} did not return the supplied value holder")
        elif arr.tobytes() != keep or arr.dtype != np.double:
            msgs.append(f"{fam}{spec['keys'][ki]}: Calculate modified the point it was given: {list(c)} became {arr.tolist()} "
                        f"(difference {(arr - np.array(c)).tolist()})")
        if msgs:
            return count, msgs
        first.append(h.value)
    if task.get("decimal"):
        # integer grid nodes of the box spelled as integers (int64 array, Python int list): the same value as the floats
        ints = [sorted({int(v) for v in (math.ceil(lo[i]), math.floor(up[i]), math.ceil((lo[i] + up[i]) / 2), 0, 1)
                        if lo[i] <= v <= up[i]}) for i in range(n)]
        if all(ints):
            for c in itertools.islice(itertools.product(*ints), 0, 200):
                vf = obj.Calculate(Point(np.array(c, dtype=np.double), []), holder(fid)).value
                for form, arr in (("an int64 array", np.array(c, dtype=np.int64)), ("a list of Python ints", list(c))):
                    count += 1
                    try:
                        vi = obj.Calculate(Point(arr, []), holder(fid)).value
                    except Exception as e:
                        return count, [f"{fam}{spec['keys'][ki]}: Calculate at {list(c)} given as {form} raised {type(e).__name__}: {e}"]
                    if not (vi == vf or (vi != vi and vf != vf)):
                        return count, [f"{fam}{spec['keys'][ki]}: value at {list(c)} is {vf!r} for floats and {vi!r} for the same "
                                       f"point given as {form}"]
    for c, v in zip(itertools.product(*axes), first):
        got = obj.Calculate(Point(np.array(c, dtype=np.double), []), holder(fid)).value
        count += 1
        if not (got == v or (got != got and v != v)):
            return count, [f"{fam}{spec['keys'][ki]}: value at {list(c)} was {v!r} in the first sweep over the lattice and "
                           f"{got!r} in the second"]
    return count, []


def cross_family(refs):
    """interleave three families on shared process state: evaluate everything, then everything again in another order"""
    fams = ["GKLS2", "Grishagin", "Hill", "Shekel", "GKLS4"]
    Ws = {f: World(f, refs[f]) for f in fams}
    viol = []
    n = 0
    live = {}
    for f in fams:
        live[f] = ({}, {})
        Ws[f].run([k for k, op in enumerate(Ws[f].ops) if op[0] == "new"], objs=live[f][0], holders=live[f][1])
    for order in itertools.permutations(fams, 3):
        for f in order + order[::-1]:
            W = Ws[f]
            seq = [k for k, op in enumerate(W.ops) if op[0] == "eval"]
            msgs, _ = W.run(seq, objs=live[f][0], holders=live[f][1])
            n += 1
            for m in msgs or ():
                viol.append(dict(driver="cross", fams=list(order), message=m, sig={}))
        if len(viol) > 5:
            break
    return n, viol


def run(ctx):
    res = Result()
    th = ctx.thorough
    refs = fresh_refs()
    fams = list(fam_specs())
    btasks = [dict(fam=f, refs=refs[f], cap=1500 if th else 150) for f in fams]
    states = trans = 0
    info = {}
    for t, (ns, nt, viol, closed, depth) in zip(btasks, pmap(bfs, btasks)):
        states += ns
        trans += nt
        info[t["fam"]] = dict(states=ns, transitions=nt, closed=closed, depth=depth)
        res.merge_violations(viol)
    L = 4 if th else 3
    utasks = []
    for f in fams:
        W = World(f, refs[f])
        evals = [k for k, op in enumerate(W.ops) if op[0] == "eval"]
        for l in range(1, L + 1):
            if len(evals) ** l > 150000:
                continue
            for first in evals:
                utasks.append(dict(fam=f, refs=refs[f], L=l, first=first))
    seqs = 0
    for t, (n, viol) in zip(utasks, pmap(unmerged, utasks, chunksize=4)):
        seqs += n
        res.merge_violations(viol)
    nc, viol = cross_family(refs)
    res.merge_violations(viol)
    dtasks = [dict(fam=f, refs=refs[f], reps=1500 if not th else 4000) for f in fams]
    deep = 0
    for t, (n, msgs) in zip(dtasks, pmap(deep_history, dtasks)):
        deep += n
        for m in msgs:
            res.add_violation(dict(driver="deep", fam=t["fam"], reps=t["reps"], message=m, sig={}))
    ltasks = []
    for f in fams:
        nd = dim_of(build(fam_specs()[f], fam_specs()[f]["keys"][0]))
        per = {1: 801, 2: 41, 3: 13, 4: 7}.get(nd, 5) if not th else {1: 4001, 2: 101, 3: 25, 4: 11}.get(nd, 7)
        for ki in (0, 1):
            ltasks.append(dict(fam=f, ki=ki, per_axis=per))
            ltasks.append(dict(fam=f, ki=ki, per_axis=per, decimal=True))
    lat = 0
    for t, (n, msgs) in zip(ltasks, pmap(lattice_sweep, ltasks)):
        lat += n
        for m in msgs:
            res.add_violation(dict(driver="lattice", **t, message=m, sig={}))
    res.cov = dict(
        states=states, transitions=trans, traces_validated_against_impl=seqs + nc, evaluations=trans + seqs + nc,
        distinct_nontrivial=seqs,
        rule="states = distinct digests of (constructed instances, module-level tables) reached by BFS over {construct A/B/C, "
             "evaluate X at p_j with fresh / reused holder} per family; traces = unmerged evaluation sequences after "
             "constructing A, B, C, plus cross-family interleavings; every evaluation compared with reference values from a "
             "fresh sub-process",
        exhaustive=all(v["closed"] for v in info.values()), per_family=info, deep_history_evaluations=deep, lattice_sweep_evaluations=lat, unmerged_length=L, cross_family_runs=nc,
        samples=[[World("GKLS2", refs["GKLS2"]).show(k) for k in (0, 1, 3, 9, 4)]],
    )
    res.assumptions = ["members and points limited to the alphabet (two members, two or three points per family, one of them "
                       "on a branch boundary)"]
    return res


def replay(rec):
    refs = fresh_refs()
    if rec["driver"] == "history":
        W = World(rec["fam"], refs[rec["fam"]])
        # the recorded history, then the same history again and again on the same interpreter (a longer history of
        # which the recorded one is a piece): purity must survive any number of earlier evaluations
        objs, holders = {}, {}
        for rep in range(8):
            msgs = W.run(rec["seq"], objs=objs, holders=holders)[0]
            if msgs:
                return [m + (f" [on repetition {rep + 1} of the recorded history]" if rep else "") for m in msgs]
        return []
    if rec["driver"] == "deep":
        return deep_history(dict(fam=rec["fam"], refs=refs[rec["fam"]], reps=rec["reps"]))[1]
    if rec["driver"] == "lattice":
        return lattice_sweep(rec)[1]
    if rec["driver"] == "cross":
        return [v["message"] for v in cross_family(refs)[1]]
    return [rec.get("message", "")]

"""C02 - every trial is placed by the AGP decision rule computed from all previous trials.

Answer-tree exploration (every answer sequence over small value alphabets to a depth) plus
deviation-bounded long runs; at every node the next trial chosen by the implementation is judged
by the reference model fed with the implementation's own previous trials."""
from mc.common import Result
from mc import solverexp
from mc.monitors import AGPVisitor

PROPERTY = "C02"
LEVEL = "model_checking"
VIS = "checks.c02:Vis"


class Vis(AGPVisitor):
    """accumulates per-execution statistics over all executions it visits"""

    def __init__(self):
        self.acc = dict(nontrivial_runs=0, tie_nodes=0, m_growths=0, optimum_changes=0)
        self.ref = None

    def begin(self, run, cfg):
        self._flush()
        super().begin(run, cfg)

    def _flush(self):
        if self.ref is not None:
            self.acc["nontrivial_runs"] += int(self.ref.m_grew > 0 and self.ref.opt_changed > 0)
            self.acc["tie_nodes"] += self.ties
            self.acc["m_growths"] += self.ref.m_grew
            self.acc["optimum_changes"] += self.ref.opt_changed
            self.ref = None

    def summary(self):
        self._flush()
        return self.acc


def run(ctx):
    tasks = solverexp.standard_plan(ctx, VIS, refine_ops=True, deep_runs=True)
    res, agg = solverexp.execute(tasks)
    s = agg["summary"]
    res.cov = dict(
        states=agg["nodes"], transitions=agg["nodes"], traces_validated_against_impl=agg["runs"],
        evaluations=agg["trials"], distinct_nontrivial=s.get("nontrivial_runs", 0),
        rule="states = distinct answer histories (tree nodes; for deviation runs the nodes after the last deviation); "
             "every state is the step-wise judgement of the implementation's next trial by the reference AGP; "
             "non-trivial = complete executions in which M grew and the optimum changed at least once",
        exhaustive=True, tie_nodes=s.get("tie_nodes", 0), m_growths=s.get("m_growths", 0),
        tree_executions=agg["tree_runs"], deviation_executions=agg["dev_runs"],
        resolution_horizon_stops=agg["horizon_stops"],
        bounds=solverexp.describe(tasks),
        samples=[dict(cfg=t["cfg"], alphabet=t.get("alphabet"), prefix=t.get("prefix"), depth=t.get("depth"))
                 for t in tasks[:2]] + [dict(cfg=t["cfg"], devs=t["devs"][-2:], horizon=t["h"]) for t in tasks[-2:]],
    )
    res.assumptions = ["objective values outside the finite alphabets / default environments are not explored",
                       "characteristics within 1e-9 relative of the maximum are accepted as maximal (ties: any)"]
    return res


def replay(rec):
    return solverexp.replay(rec, VIS)

"""C01 - certified eps-optimality of the result under the Lipschitz reliability condition.

(a) finite families of Lipschitz objectives with exactly known minimum and Lipschitz constant on the
    normalised box (all 3^k zig-zags, cones and pairs of cones on a centre lattice, all linear
    directions, constants) x boxes x r x eps x L on both sides of the reliability threshold;
(b) N=1 extremal adversary: the environment answers every query with the lowest / highest / middle value
    consistent with L-Lipschitz continuity w.r.t. all previous answers; every placement of <= b
    deviations between the three strategies; the oracle is the WORST L-Lipschitz function through the
    observed values (closed form), so one execution decides the bound for all objectives with these answers.
Premise reading (DESIGN C01): M in force when the last interval was chosen."""
import itertools
import math

import numpy as np

from mc.common import Result, pmap
from mc import tree
from mc.env import Recorder, box
from mc.refmodel import RefAGP

PROPERTY = "C01"
LEVEL = "model_checking"
LIMIT = 20000


def K(N):
    return 2.0 if N == 1 else 2.0 ** (3.0 - 1.0 / N) * math.sqrt(N + 3)


def grid_term(N, L, m):
    return 0.0 if N == 1 else L * 2.0 ** -m * (math.sqrt(N + 3) + math.sqrt(N) / 2)


# ---------------------------------------------------------------- families (functions of normalised u)

def family(kind, par, N):
    """-> (f(u), L, fstar)"""
    if kind == "zig":
        slopes, L = par
        k = len(slopes)
        knots = [0.0]
        for s in slopes:
            knots.append(knots[-1] + s * L / k)

        def f(u):
            t = min(max(float(u[0]), 0.0), 1.0) * k
            i = min(int(t), k - 1)
            return knots[i] + (t - i) * (knots[i + 1] - knots[i])
        Lip = L if any(slopes) else 0.0
        return f, Lip, min(knots)
    if kind == "cone":
        cones, p = par   # [(v, L, centre)]
        cs = [(v, L, np.array(c)) for v, L, c in cones]
        if p == 2:
            def f(u):
                return min(v + L * float(np.sqrt(np.sum((u - c) ** 2))) for v, L, c in cs)
        else:
            def f(u):
                return min(v + L * float(np.max(np.abs(u - c))) for v, L, c in cs)
        return f, max(L for _, L, _ in cs), min(v for v, _, _ in cs)
    if kind == "lin":
        a, L = par
        a = np.array(a, dtype=float)
        nrm = float(np.sqrt(np.sum(a * a)))
        return (lambda u: L * float(np.dot(a, u)) / nrm), L, L * float(np.sum(np.minimum(a, 0.0))) / nrm
    if kind == "const":
        return (lambda u: par), 0.0, par
    raise KeyError(kind)


class Horizon(Exception):
    """the batch of pre-iterations ran into the resolution horizon (C03 known finding): nothing to judge for C01"""


def solve_case(N, bx, r, eps, f_u, density=None, pre=0, coarse=None, holder=None, constraints=0):
    lo, up = box(bx, N)
    lo_a = np.array(lo)
    w = np.array(up) - lo_a
    order = []
    rec = Recorder(on_iter=lambda pts, sol: order.extend((p.GetX(), p.GetZ()) for p in pts))
    cfg = dict(N=N, box=bx, r=r, eps=eps, itersLimit=LIMIT, density=density, holder=holder, constraints=constraints,
               discrete=1 if constraints else 0)
    if coarse is not None:
        # two stages on one solver: Solve with a coarse eps and local refinement, then the user tightens
        # parameters.eps and calls Solve again - the second result must be certified for the tighter eps
        cfg = dict(cfg, eps=coarse, refine=True)
    run = tree.make_run(cfg, lambda k, y: f_u((y - lo_a) / w), listeners=[rec])
    if coarse is not None:
        run.solve()
        # between the stages the user asks the evolvent where the reported optimum lies on the curve (read-only query
        # given the Solution's own array)
        try:
            run.solver.evolvent.GetPreimages(run.solver.GetResults().bestTrials[0].point.floatVariables)
        except Exception:
            pass
        run.params.eps = eps
    if pre:
        try:
            run.step(pre)          # the iterations may be started through the step-wise API and finished by Solve
        except BaseException:
            if tree._horizon(run, cfg):
                raise Horizon()
            raise
    sol = run.solve()
    if coarse is not None:
        # ... and once more on the finished solver (same eps: no new global trial, the refinement runs again), after
        # another read-only query about the reported optimum; what Solve returns must still be certified
        try:
            run.solver.evolvent.GetPreimages(sol.bestTrials[0].point.floatVariables)
        except Exception:
            pass
        sol = run.solve()
    return run, sol, order


def judge(N, r, eps, L, fstar, sol, order, m):
    """-> (status, message, ratio)"""
    n = sol.numberOfGlobalTrials
    # Solve has two ways to stop: the iteration limit and the accuracy criterion.  A Solve that returns with fewer
    # trials than the limit stopped by accuracy whatever accuracy it reports (that report is C03's subject), and its
    # result must carry the certificate for the eps the user asked for
    if not n < LIMIT:
        return "no_accuracy_stop", None, None
    ref = RefAGP(N, r)
    k0 = None
    for k, (x, z) in enumerate(order):
        if k0 is None and ref.trials:
            j = ref.interval_of(x)
            if j is not None and ref.hold(ref.xs[j - 1], ref.xs[j]) < eps:
                k0 = k       # first trial (0-based) that subdivided an interval shorter than eps
        ref.add(x, z)
    if k0 is None:
        k0 = len(order) - 1      # accuracy is claimed although no recorded trial split a sub-eps interval: last decision
    if not order:
        return "unconditional", (f"Solve returned after {n} trials (limit {LIMIT}) without a single completed trial: nothing "
                                 f"is certified for eps={eps}"), None
    if len(ref.M_hist) < 2 or k0 < 1:
        if eps < 1.0:
            # one trial splits [0, 1], whose length 1 is not below eps: a Solve that stops there did not reach eps
            return "unconditional", (f"Solve returned after a single trial (limit {LIMIT}) although the only subdivided "
                                     f"interval has length 1 >= eps={eps}"), None
        return "too_short", None, None
    # M in force when that interval was chosen (for a plain Solve it is the last trial; when iterations were made in
    # batches before Solve the search may have gone on past it - the bound then follows from that earlier moment)
    M_fin, M_dec = ref.M_hist[-1], ref.M_hist[k0 - 1]
    best = sol.bestTrials[0].functionValues[0].value
    bound = (r * M_fin / 2.0) * eps + grid_term(N, L, m)
    gap = best - fstar
    if r * M_dec >= K(N) * L:
        status = "unconditional" if K(N) * L <= r else "conditional"
        if not (gap < bound + 4 * math.ulp(bound)):
            return status, (f"stopped by accuracy after {n} trials with best value {best!r}; true minimum {fstar!r}: gap "
                            f"{gap!r} >= bound (r*M/2)*eps + grid term = {bound!r} (r={r}, M={M_fin!r}, eps={eps}, L={L}, "
                            f"K_N*L={K(N) * L!r} <= r*M={r * M_dec!r} at the last decision)"), gap / bound
        return status, None, gap / bound if bound > 0 else 0.0
    if r * M_fin >= K(N) * L:
        return "window", None, None
    return "premise_false", None, None


def family_case(task):
    N, bx, r, eps, kind, par = task["N"], task["box"], task["r"], task["eps"], task["kind"], task["par"]
    m = task.get("density") or 10
    f, L, fstar = family(kind, par, N)
    if task.get("affine"):
        # the same objective on another value domain: a * f + b (a > 0) has Lipschitz constant a * L and minimum a * f* + b
        a_, b_ = task["affine"]
        f0 = f
        f, L, fstar = (lambda u: a_ * f0(u) + b_), a_ * L, a_ * fstar + b_
    try:
        run, sol, order = solve_case(N, bx, r, eps, f, task.get("density"), task.get("pre", 0), task.get("coarse"),
                                      task.get("holder"), task.get("constraints", 0))
    except Horizon:
        return "resolution_horizon", None, None, 0
    except BaseException as e:
        return "error", f"Solve raised {type(e).__name__}: {e}", None, 0
    st, msg, ratio = judge(N, r, eps, L, fstar, sol, order, m)
    return st, msg, ratio, sol.numberOfGlobalTrials


def family_chunk(tasks):
    return [family_case(t) for t in tasks]


# ---------------------------------------------------------------- extremal adversary (N = 1)

def adversary_case(task):
    L, r, eps, default, dev = task["L"], task["r"], task["eps"], task["default"], dict(task["dev"])
    pts = []
    import bisect
    sx, sz = [], []      # the answers sorted by x (for the neighbour form of the envelope)

    def answer(k, y):
        x = float(y[0])
        if not pts:
            z = 0.0
        else:
            # answers are mutually L-consistent, so the tightest constraints at x come from the nearest answered
            # point on each side; the full form over all points is used (and compared) while the history is short
            i = bisect.bisect_left(sx, x)
            nb = [(sx[j], sz[j]) for j in (i - 1, i) if 0 <= j < len(sx)]
            lo = max(zz - L * abs(x - xx) for xx, zz in nb)
            hi = min(zz + L * abs(x - xx) for xx, zz in nb)
            if len(pts) <= 400:
                lo_f = max(zz - L * abs(x - xx) for xx, zz in pts)
                hi_f = min(zz + L * abs(x - xx) for xx, zz in pts)
                if abs(lo - lo_f) > 1e-12 * max(1.0, abs(lo_f)) or abs(hi - hi_f) > 1e-12 * max(1.0, abs(hi_f)):
                    raise RuntimeError("harness: neighbour envelope differs from the full envelope")
                lo, hi = lo_f, hi_f
            s = dev.get(k, default)
            z = {"lo": lo, "hi": hi, "mid": 0.5 * (lo + hi)}[s]
        pts.append((x, z))
        i = bisect.bisect_left(sx, x)
        sx.insert(i, x)
        sz.insert(i, z)
        return z
    order = []
    rec = Recorder(on_iter=lambda p, sol: order.extend((q.GetX(), q.GetZ()) for q in p))
    cfg = dict(N=1, box="B0", r=r, eps=eps, itersLimit=LIMIT)
    listeners = [rec]
    if task.get("console"):
        from iOpt.method.listener import ConsoleFullOutputListener
        listeners.append(ConsoleFullOutputListener(mode=task["console"]))
    run = tree.make_run(cfg, answer, listeners=listeners)
    try:
        if task.get("pre"):
            run.step(task["pre"])
        sol = run.solve()
    except BaseException as e:
        if tree._horizon(run, cfg):
            return "resolution_horizon", None, None, 0
        return "error", f"Solve raised {type(e).__name__}: {e}", None, 0
    p = sorted(pts)
    worst = min(z for _, z in p)
    worst = min(worst, p[0][1] - L * (p[0][0] - 0.0), p[-1][1] - L * (1.0 - p[-1][0]))
    for (a, za), (b, zb) in zip(p, p[1:]):
        worst = min(worst, (za + zb) / 2 - L * (b - a) / 2)
    st, msg, ratio = judge(1, r, eps, L, worst, sol, order, 10)
    if msg:
        msg = "adversary (worst L-Lipschitz function through the answers): " + msg
    return st, msg, ratio, sol.numberOfGlobalTrials


def adversary_chunk(tasks):
    return [adversary_case(t) for t in tasks]


# ---------------------------------------------------------------- plan

def plan_families(ctx):
    th = ctx.thorough
    tasks = []
    k = 7 if th else 5
    for slopes in itertools.product((-1, 0, 1), repeat=k):
        for r in (1.5, 2.0, 3.5):
            for eps in (0.1, 0.01, 0.001):
                for L in (0.4, 1.0, 3.0, 10.0):
                    tasks.append(dict(N=1, box="B0" if slopes[0] >= 0 else "B1", r=r, eps=eps, kind="zig",
                                      par=[list(slopes), L]))
    # the same zig-zags with the first iterations made through DoGlobalIteration(n) before Solve
    for slopes in itertools.product((-1, 0, 1), repeat=5):
        for pre in (12, 40):
            for eps in (0.01, 0.001):
                for L, r in ((1.0, 2.0), (3.0, 3.5), (10.0, 8.0)) if th else ((3.0, 3.5),):
                    tasks.append(dict(N=1, box="B0", r=r, eps=eps, kind="zig", par=[list(slopes), L], pre=pre))
    # eps on both sides of the curve's grid step 2^-m (for N = 1 the curve is exact and eps is the user's, whatever m is)
    for slopes in itertools.product((-1, 0, 1), repeat=5):
        for eps, m in ((1e-4, None), (2e-5, None), (3e-3, 8), (3e-3, 6), (1e-4, 14)) if th else ((1e-4, None), (3e-3, 6)):
            for L, r in ((1.0, 2.0), (3.0, 3.5)):
                tasks.append(dict(N=1, box="B1", r=r, eps=eps, kind="zig", par=[list(slopes), L], density=m))
    # other value domains: everything below -1, offsets of 1e6 (both signs), amplitudes of 1e-3 and 1e4
    for slopes in itertools.product((-1, 0, 1), repeat=5):
        for aff in ((1.0, -7.0), (1.0, 1e6), (1.0, -1e6), (1e-3, 0.0), (1e4, -3.0)) if th else ((1.0, -7.0), (1.0, -1e6), (1e4, -3.0)):
            for L, r in ((1.0, 2.0), (3.0, 3.5)) if th else ((3.0, 3.5),):
                tasks.append(dict(N=1, box="B1", r=r, eps=0.01, kind="zig", par=[list(slopes), L], affine=list(aff)))
    for c in ((0.0, 0.0), (1.0 / 3.0, 1.0), (0.5, 0.5), (1.0, 0.2)):
        for aff in ((1.0, -7.0), (1.0, -1e6), (1e4, -3.0), (1e-3, 0.0)):
            for r in (2.0 * K(2) * 0.5, 4.0, 16.0):
                tasks.append(dict(N=2, box="B2", r=r, eps=0.05, kind="cone", par=[[[0.0, 0.5, list(c)]], 2], affine=list(aff)))
    # a user Problem that returns a new value holder; integer-typed bounds
    for slopes in itertools.product((-1, 0, 1), repeat=5):
        for L, r in ((1.0, 2.0), (3.0, 3.5)):
            tasks.append(dict(N=1, box="B1", r=r, eps=0.01, kind="zig", par=[list(slopes), L], holder="fresh"))
            tasks.append(dict(N=1, box="Z", r=r, eps=0.01, kind="zig", par=[list(slopes), L]))
            # a Problem that declares constraints and a discrete parameter and dispatches on the holder's type
            tasks.append(dict(N=1, box="B1", r=r, eps=0.01, kind="zig", par=[list(slopes), L], constraints=2))
            # the objective value left in the holder as a 0-d array; r below 2 as well
            tasks.append(dict(N=1, box="B1", r=r, eps=0.01, kind="zig", par=[list(slopes), L], holder="zerod"))
            tasks.append(dict(N=1, box="B0", r=1.5, eps=0.01, kind="zig", par=[list(slopes), 0.5], holder="zerod"))
    for c in ((0.0, 0.0), (1.0, 1.0 / 3.0), (0.5, 1.0)):
        for L, r in ((0.5 * 2.0 / K(2), 2.0), (0.95 * 3.5 / K(2), 3.5)):
            tasks.append(dict(N=2, box="B1", r=r, eps=0.1, kind="cone", par=[[[0.0, L, list(c)]], 2], holder="fresh"))
            tasks.append(dict(N=2, box="Z", r=r, eps=0.1, kind="cone", par=[[[0.0, L, list(c)]], 2]))
    # two-stage use of one solver: coarse eps with refinement, then a tighter eps
    for slopes in itertools.product((-1, 0, 1), repeat=5):
        for coarse, eps in ((0.5, 0.01), (0.3, 0.002), (0.15, 0.01)):
            for L, r in ((1.0, 2.0), (3.0, 3.5), (10.0, 8.0)) if th else ((1.0, 3.0),):
                tasks.append(dict(N=1, box="B1", r=r, eps=eps, kind="zig", par=[list(slopes), L], coarse=coarse))
    # two-stage use on objectives with a decoy basin (global cone at c, shallower decoy at c2)
    for c, c2 in ((0.1, 0.8), (0.8, 0.1), (0.3, 0.9), (0.95, 0.4), (0.05, 0.55), (0.62, 0.2)):
        for coarse in (0.5, 0.3, 0.15):
            for L, r in ((1.0, 2.5), (3.0, 3.5)) if not th else ((1.0, 2.5), (3.0, 3.5), (10.0, 8.0)):
                tasks.append(dict(N=1, box="B1", r=r, eps=0.005, kind="cone", coarse=coarse,
                                  par=[[[0.0, L, [c]], [0.15 * L, 0.7 * L, [c2]]], 2]))
    # ... and with a decoy almost as deep as the global basin (the refinement of the coarse stage ends at the bottom of
    # the decoy; the global basin's part below that value is a narrow core inside a wide skirt)
    cs = (0.07, 0.2, 0.4057, 0.55, 0.7246, 0.9)
    for c, c2 in itertools.permutations(cs, 2):
        for dv in (0.005, 0.0133) if not th else (0.005, 0.0133, 0.04, 0.1):
            for coarse in (0.9, 0.5, 0.2) if not th else (0.9, 0.5, 0.3, 0.2, 0.1):
                for L, r in ((2.0, 4.5),) if not th else ((2.0, 4.5), (1.0, 2.5), (5.0, 10.5)):
                    tasks.append(dict(N=1, box="B0", r=r, eps=5e-4, kind="cone", coarse=coarse,
                                      par=[[[0.0, L, [c]], [dv * L, L, [c2]]], 2]))
    lat = (0.0, 1.0 / 3.0, 0.5, 1.0)
    epsN = {1: (0.1, 0.01), 2: (0.1, 0.03), 3: (0.2, 0.1), 4: (0.3, 0.2), 5: (0.3, 0.2)}
    if th:
        epsN[3] = (0.2, 0.1, 0.05)
    for N in (1, 2, 3, 4) if not th else (1, 2, 3, 4, 5):
        rs = (2.0, 3.5, 8.0)
        Ls = [0.5 * 2.0 / K(N), 0.95 * 3.5 / K(N), 2.0 * 3.5 / K(N), 1.0, 5.0]
        centres = list(itertools.product(lat, repeat=N))
        if N >= 3:
            centres = [c for c in centres if len(set(c)) <= 2]
        if N >= 4 or (not th and N == 3):
            centres = centres[::3]
        if not th and N == 4:
            centres = centres[::2]
        boxes = ("B0", "B1", "B2", "B3") if N == 1 else ("B0", "B1", "B2", "B3", "D")
        i = 0
        for c in centres:
            for p in (2, "inf"):
                for L in Ls:
                    for r in rs:
                        for eps in epsN[N]:
                            i += 1
                            tasks.append(dict(N=N, box=boxes[i % len(boxes)], r=r, eps=eps, kind="cone",
                                              par=[[[0.0, L, list(c)]], p]))
        # pairs of cones: global one at c, a shallower decoy elsewhere
        for c, c2 in list(zip(centres, centres[1:] + centres[:1]))[:: (1 if th or N == 1 else 2)]:
            for L in Ls[:4]:
                for r in rs[1:]:
                    eps = epsN[N][0]
                    i += 1
                    tasks.append(dict(N=N, box=boxes[i % len(boxes)], r=r, eps=eps, kind="cone",
                                      par=[[[0.0, L, list(c)], [0.05 * L, 0.5 * L, list(c2)]], 2]))
        for a in itertools.product((-1, 0, 1), repeat=N):
            if not any(a):
                continue
            for L in Ls:
                for r in rs:
                    for eps in epsN[N][:1] if N >= 3 and not th else epsN[N]:
                        i += 1
                        tasks.append(dict(N=N, box=boxes[i % len(boxes)], r=r, eps=eps, kind="lin", par=[list(a), L]))
        for r in rs:
            for eps in epsN[N]:
                tasks.append(dict(N=N, box="B2", r=r, eps=eps, kind="const", par=0.75))
        # coarser curve: the grid term matters
        if N >= 2:
            for c in centres[:4]:
                for L in Ls[:3]:
                    tasks.append(dict(N=N, box="B0", r=3.5, eps=epsN[N][0], kind="cone", par=[[[0.0, L, list(c)]], 2],
                                      density=5))
    return tasks


def plan_adversary(ctx):
    th = ctx.thorough
    S = ["lo", "hi", "mid"]
    tasks = []
    H = 30 if th else 18
    b = 2
    for L in (0.4, 1.0, 3.0):
        for r in (1.5, 2.0, 3.5):
            for eps in (0.1, 0.02, 0.004) if th else (0.1, 0.02):
                for default in S:
                    others = [s for s in S if s != default]
                    devsets = [()]
                    devsets += [((i, a),) for i in range(2, H) for a in others]
                    if b >= 2:
                        devsets += [((i, a), (j, c)) for i in range(2, H) for j in range(i + 1, H)
                                    for a in others for c in others]
                    if th:
                        devsets += [((i, a), (j, c), (q, e)) for i in range(2, 10) for j in range(i + 1, 10)
                                    for q in range(j + 1, 10) for a in others for c in others for e in others]
                    for dv in devsets:
                        tasks.append(dict(L=L, r=r, eps=eps, default=default, dev=[list(d) for d in dv]))
                    # iterations started through the step-wise API (one batch), finished by Solve
                    for pre in (10, 30, 60):
                        for dv in devsets[: 1 + 2 * (H - 2)]:
                            tasks.append(dict(L=L, r=r, eps=eps, default=default, dev=[list(d) for d in dv], pre=pre))
    # the deep end: accuracy far below the coarse grid, thousands of trials, M and the optimum at rest for long stretches
    for L, r in ((2.0, 4.5), (1.0, 2.0)) + (((0.4, 3.5),) if th else ()):
        for eps in (1.5 * 2.0 ** -13,) + ((1.5 * 2.0 ** -14,) if th else ()):
            for default in S:
                others = [s for s in S if s != default]
                tasks.append(dict(L=L, r=r, eps=eps, default=default, dev=[]))
                for mode in ("custom", "full"):
                    tasks.append(dict(L=L, r=r, eps=eps, default=default, dev=[], console=mode))
                for i in ((5, 40, 300) if th else (40,)):
                    for a in others:
                        tasks.append(dict(L=L, r=r, eps=eps, default=default, dev=[[i, a]]))
    return tasks


def chunks(lst, n):
    return [lst[i:i + n] for i in range(0, len(lst), n)]


def run(ctx):
    res = Result()
    ftasks = plan_families(ctx)
    atasks = plan_adversary(ctx)
    # expensive first
    order = sorted(range(len(ftasks)), key=lambda i: -(ftasks[i]["N"] ** 2 / ftasks[i]["eps"] ** min(ftasks[i]["N"], 2)))
    fch = chunks([ftasks[i] for i in order], 25)
    fout = [x for ch in pmap(family_chunk, fch) for x in ch]
    counts = {}
    worst = 0.0
    trials = 0
    for i, (st, msg, ratio, n) in zip(order, fout):
        counts[st] = counts.get(st, 0) + 1
        trials += n
        if ratio is not None:
            worst = max(worst, ratio)
        if msg:
            t = ftasks[i]
            res.add_violation(dict(driver="family", **t, message=f"N={t['N']} box={t['box']} {t['kind']}{t['par']}: {msg}", sig={}))
    atasks.sort(key=lambda t: t["eps"])      # the deep runs first
    ach = [[t] for t in atasks if t["eps"] < 1e-3] + chunks([t for t in atasks if t["eps"] >= 1e-3], 200)
    aout = [x for ch in pmap(adversary_chunk, ach) for x in ch]
    acounts = {}
    aworst = 0.0
    for t, (st, msg, ratio, n) in zip(atasks, aout):
        acounts[st] = acounts.get(st, 0) + 1
        trials += n
        if ratio is not None:
            aworst = max(aworst, ratio)
        if msg:
            res.add_violation(dict(driver="adversary", **t, message=msg, sig={}))
    checked = sum(counts.get(k, 0) + acounts.get(k, 0) for k in ("unconditional", "conditional"))
    res.cov = dict(
        states=len(ftasks) + len(atasks), transitions=trials, traces_validated_against_impl=len(ftasks) + len(atasks),
        evaluations=len(ftasks) + len(atasks), distinct_nontrivial=checked,
        rule="one Solve per member of the finite families x (box, r, eps, L) and per adversary strategy with <= b "
             "deviations; non-trivial = executions that stopped by accuracy with the reliability premise true at the last "
             "decision, i.e. where the bound was actually checked",
        exhaustive=True, family_outcomes=counts, adversary_outcomes=acounts, worst_gap_over_bound_families=worst,
        worst_gap_over_bound_adversary=aworst, window_cases=counts.get("window", 0) + acounts.get("window", 0),
        samples=[ftasks[0], ftasks[len(ftasks) // 2], atasks[len(atasks) // 2]],
    )
    res.assumptions = ["for N >= 2 the claim is over the enumerated families only; for N = 1 the adversary's closed-form "
                       "envelope covers every L-Lipschitz objective consistent with the explored answer strategies",
                       "premise evaluated with the estimate M in force when the last interval was chosen (narrower than "
                       "the final estimate; 'window' cases are counted, not judged)"]
    return res


def replay(rec):
    if rec["driver"] == "family":
        st, msg, ratio, n = family_case(rec)
    else:
        st, msg, ratio, n = adversary_case(rec)
    return [msg] if msg else []

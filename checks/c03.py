"""C03 - termination, stop criterion and trial budget.

For every answer history of the tree the behaviour of Solve depends on eps only through the
comparisons D_k < eps and on itersLimit only through k >= itersLimit, so Solve is run once for
every equivalence class of eps (below all D, between consecutive distinct D, every D itself -
the boundary of the strict comparison -, above, 1.0, 2.0) and every itersLimit in 1..d+1: an
exact finite quotient of the continuous parameters.  Second driver: resolution horizon."""
import itertools
import math

from mc.common import Result, pmap, quiet
from mc import tree
from mc.env import box, Recorder, ulp_dist
from mc.envs import make_env
from mc.refmodel import RefAGP
from mc.solverexp import ALPHABETS

PROPERTY = "C03"
LEVEL = "model_checking"


def solve_once(cfg, answer, pre=0):
    """-> dict with what Solve did, observed through the problem log and a recording listener"""
    order = []
    rec = Recorder(on_iter=lambda pts, sol: order.extend((p.GetX(), p.GetZ()) for p in pts))
    out = dict(error=None)
    try:
        run = tree.make_run(cfg, answer, listeners=[rec])
    except BaseException as e:
        out["error"] = f"Solver cannot be constructed: {type(e).__name__}: {e}"
        return out
    try:
        if pre:
            run.step(pre)      # the iterations up to the stop moment made through the step-wise API, then Solve
        sol = run.solve()
    except BaseException as e:
        out["error"] = f"Solve raised {type(e).__name__}: {e}"
        return out
    out.update(run=run, sol=sol, calls=run.problem.calls, n=sol.numberOfGlobalTrials, acc=sol.solutionAccuracy,
               order=order, printed=run.out)
    return out


def judge(cfg, out, itersLimit, eps):
    """-> (messages, D list) for one finished Solve"""
    if out["error"]:
        return [out["error"]], []
    msgs = []
    n, calls, order = out["n"], out["calls"], out["order"]
    if cfg.get("refine"):
        # evaluations made by the local refinement are not global trials: count what the global search reported
        calls = min(calls, len(order))
    if calls != n:
        msgs.append(f"[count] objective evaluated {calls} times but {n} global trials reported")
    if n > itersLimit:
        msgs.append(f"[budget] {n} global trials exceed itersLimit={itersLimit}")
    if len(order) != calls:
        msgs.append(f"[count] {len(order)} trials reported to the listener, {calls} evaluations made")
        return msgs, []
    ref = RefAGP(cfg["N"], cfg.get("r", 2.0))
    D = []
    for (x, z) in order:
        if ref.trials:
            j = ref.interval_of(x)
            if j is None:
                msgs.append(f"[partition] trial at x={x!r} is not inside an interval of the partition")
                return msgs, D
            D.append(ref.hold(ref.xs[j - 1], ref.xs[j]))
        ref.add(x, z)
    # stop index implied by the run's own lengths
    kstar = next((k for k, d in enumerate(D, start=2) if d < eps), None)
    if kstar is not None and n > kstar:
        msgs.append(f"[late] trial {kstar} subdivided an interval of length {D[kstar - 2]!r} < eps={eps!r} but the search "
                    f"went on to {n} trials (itersLimit={itersLimit})")
    if kstar is None and n < itersLimit:
        msgs.append(f"[early] stopped after {n} trials although no subdivided interval was shorter than eps={eps!r} "
                    f"(smallest {min(D) if D else None!r}) and itersLimit={itersLimit} was not reached")
    acc = out["acc"]
    if D:
        md = min(D)
        if not (abs(acc - md) <= 1e-12 * md):
            msgs.append(f"[accuracy] reported accuracy {acc!r} but the smallest subdivided interval has length {md!r}")
    elif not (acc >= 1.0):
        msgs.append(f"[accuracy] reported accuracy {acc!r} after a single trial (nothing was subdivided)")
    out["ref"] = ref
    return msgs, D


WELLS = {
    # name -> f(u) on the unit interval; the coarse search sees the rim, the refinement falls to the bottom
    "well": lambda u, c: 0.3 * abs(u - c) - 40.0 * math.exp(-((u - c) / 0.03) ** 2),
    "dip": lambda u, c: abs(u - c) - 2.0 * max(0.0, 1.0 - abs(u - c) / 0.01),
    "vee": lambda u, c: 3.0 * abs(u - c),
}


def stepwise_case(task):
    """DoGlobalIteration(k), DoLocalRefinement(n), Solve: the Solve must run on to the accuracy / budget stop"""
    kind, c, k, n_loc, limit, eps, N = (task[x] for x in ("kind", "c", "k", "n_loc", "limit", "eps", "N"))
    cfg = dict(N=N, r=task["r"], box="B1", eps=eps, itersLimit=limit)
    lo, up = box("B1", N)
    f = lambda y: float(sum(WELLS[kind]((float(v) - lo[i]) / (up[i] - lo[i]), c) for i, v in enumerate(y)))
    order = []
    rec = Recorder(on_iter=lambda pts, sol: order.extend((p.GetX(), p.GetZ()) for p in pts))
    out = dict(error=None)
    try:
        run = tree.make_run(cfg, lambda kk, y: f(y), listeners=[rec])
        run.step(k)
        run.refine(n_loc, f)
        if task.get("again"):
            run.step(task["again"])
            run.refine(n_loc, f)
        sol = run.solve()
    except BaseException as e:
        if tree._horizon(run, cfg):
            return []
        return [f"raised {type(e).__name__}: {e}"]
    out.update(run=run, sol=sol, calls=run.problem.calls, n=sol.numberOfGlobalTrials, acc=sol.solutionAccuracy,
               order=order, printed=run.out)
    msgs, D = judge(cfg, out, limit, eps)
    # the step-wise calls do not look at the stop criterion (C11): judge only what Solve added
    msgs = [m for m in msgs if not m.startswith(("[late]", "[early]", "[budget]"))]
    n, n_pre = out["n"], k + task.get("again", 0)
    if not msgs and len(D) == n - 1:
        met = lambda j: (j >= 2 and min(D[:j - 1]) < eps) or j >= limit      # criterion after j trials
        if n < n_pre:
            msgs.append(f"[count] {n} trials reported after {n_pre} step-wise iterations")
        elif n == n_pre and not met(n):
            msgs.append(f"[early] Solve added nothing after {n_pre} step-wise trials although no subdivided interval was "
                        f"shorter than eps={eps!r} (smallest {min(D)!r}) and itersLimit={limit} was not reached")
        elif n > n_pre:
            first = next((j for j in range(n_pre, n) if met(j)), None)
            if first is not None:
                msgs.append(f"[late] the criterion was met after {first} trials but Solve went on to {n}")
            elif not met(n):
                msgs.append(f"[early] Solve stopped after {n} trials although no subdivided interval was shorter than "
                            f"eps={eps!r} (smallest {min(D)!r}) and itersLimit={limit} was not reached")
    if "Exception" in run.out and not tree._horizon(run, cfg):
        msgs.append("Solve printed: " + run.out.strip().splitlines()[-1][:120])
    return msgs


def stepwise_chunk(tasks):
    return [stepwise_case(t) for t in tasks]


def eps_classes(D):
    ds = sorted(set(D))
    out = [2.0, 1.0]
    if ds:
        out.append(ds[0] * 0.5)
        for a, b in zip(ds, ds[1:]):
            out.append(0.5 * (a + b))
        out += ds
        if ds[-1] < 1.0:
            out.append(0.5 * (ds[-1] + 1.0))
    return sorted(set(out))


def block(task):
    cfg, alphabet, depth, prefix = task["cfg"], task["alphabet"], task["depth"], tuple(task["prefix"])
    stats = dict(runs=0, histories=0, classes=0, nontrivial=0, outcomes=set())
    viol = []
    default = alphabet[0]
    for tail in itertools.product(range(len(alphabet)), repeat=depth - len(prefix)):
        leaf = prefix + tail
        # reference execution: d+1 iterations by the budget alone, to learn the lengths D_2..D_{d+1}
        c0 = dict(cfg, eps=0.0, itersLimit=depth + 1)
        o = solve_once(c0, tree.scripted(leaf, alphabet, default))
        msgs, D = judge(c0, o, depth + 1, 0.0)
        stats["runs"] += 1
        stats["histories"] += 1
        for m in msgs:
            viol.append(dict(driver="quotient", cfg=c0, alphabet=alphabet, choices=list(leaf), eps=0.0,
                             itersLimit=depth + 1, message=m, sig=dict(kind="reference")))
        if msgs:
            if o["error"]:
                break
            continue
        classes = eps_classes(D)
        stats["classes"] += len(classes)
        for eps in classes:
            for L in range(1, depth + 2):
                c = dict(cfg, eps=eps, itersLimit=L)
                o = solve_once(c, tree.scripted(leaf, alphabet, default))
                stats["runs"] += 1
                msgs, D2 = judge(c, o, L, eps)
                if not o["error"]:
                    stats["outcomes"].add((o["n"], o["n"] < L))
                    if 1 < o["n"] < L:
                        stats["nontrivial"] += 1
                for m in msgs:
                    viol.append(dict(driver="quotient", cfg=c, alphabet=alphabet, choices=list(leaf), eps=eps,
                                     itersLimit=L, message=m, sig=dict(kind="quotient")))
                if not msgs and not o["error"] and o["n"] >= 1:
                    # the same stop moment reached through DoGlobalIteration(n): Solve finds the criterion already
                    # satisfied and must not add a trial (never later), report the same count and accuracy
                    o2 = solve_once(c, tree.scripted(leaf, alphabet, default), pre=o["n"])
                    stats["runs"] += 1
                    m2, _ = judge(c, o2, L, eps)
                    if not o2["error"] and not m2 and (o2["n"], o2["acc"]) != (o["n"], o["acc"]):
                        m2 = [f"[late] DoGlobalIteration({o['n']}) then Solve: {o2['n']} trials, accuracy {o2['acc']!r}; Solve "
                              f"alone stops after {o['n']} trials with accuracy {o['acc']!r}"]
                    for m in m2:
                        viol.append(dict(driver="quotient", cfg=c, alphabet=alphabet, choices=list(leaf), eps=eps,
                                         itersLimit=L, pre=o["n"], message="after DoGlobalIteration(%d): %s" % (o["n"], m),
                                         sig=dict(kind="quotient")))
        if len(viol) > 30:
            break
    stats["outcomes"] = sorted(stats["outcomes"])
    return stats, viol


def horizon_case(task):
    """resolution horizon: eps below what doubles resolve; the budget is far away"""
    cfg, dev = task["cfg"], task["dev"]
    default_fn = make_env(cfg["env"], cfg)
    alts = [lambda k, y: default_fn(k, y) - 1.0, lambda k, y: default_fn(k, y) + 1.0]
    o = solve_once(cfg, tree.dev_answer(default_fn, alts, [tuple(d) for d in dev]))
    msgs, D = judge(cfg, o, cfg["itersLimit"], cfg["eps"])
    viol = []
    if msgs:
        ref = o.get("ref")
        extra = ""
        base = dict(driver="horizon", N=cfg["N"])
        if ref is not None and not o["error"]:
            R = ref.chars()
            j = R.index(max(R)) + 1
            gap = ulp_dist(ref.xs[j - 1], ref.xs[j])
            base["collapsed_le_4ulp"] = bool(gap <= 4)
            clen = ref.hold(ref.xs[j - 1], ref.xs[j])
            base["accuracy_is_collapsed_length"] = bool(abs(o["acc"] - clen) <= 1e-12 * clen)
            extra = (f" [interval designated maximal by the reference model: [{ref.xs[j - 1]!r},{ref.xs[j]!r}], "
                     f"{gap} ulp wide; printed: {o['printed'].strip()[-120:]!r}]")
        for m in msgs:
            sig = dict(base, kind=m[1:m.index("]")])
            viol.append(dict(driver="horizon", cfg=cfg, dev=dev, message=m + extra, sig=sig))
    return dict(n=o.get("n"), min_D=min(D) if D else None), viol


def run(ctx):
    res = Result()
    th = ctx.thorough
    tasks = []
    d = 8 if th else 6
    plan = []
    for N in ((1, 2, 3) if th else (1, 2)):
        for r in ((1.5, 2.0, 3.5) if th else (2.0,)):
            for a in (["A013", "A01", "Am201"] if th else ["A013"] + ctx.pick(["A01", "Am201", "A3210"], 1)):
                dd = d if len(ALPHABETS[a]) == 3 else (d + 2 if len(ALPHABETS[a]) == 2 else d - 1)
                if th and N == 3:
                    dd -= 1
                cfg = dict(N=N, r=r, box="B0" if N != 2 else "B1")
                plan.append((cfg, a, dd))
                tasks += [dict(t, alphabet_name=a) for t in tree.tree_tasks(cfg, ALPHABETS[a], dd, split=3)]
    # coarse evolvent densities (the stop rule is about eps, whatever the grid) and runs with local refinement switched
    # on (the count and the accuracy are those of the global search)
    if not th:
        cfg = dict(N=3, r=2.0, box="B0")
        plan.append((cfg, "A013", d - 1))
        tasks += [dict(t, alphabet_name="A013") for t in tree.tree_tasks(cfg, ALPHABETS["A013"], d - 1, split=3)]
    for N in (1, 2):
        for extra in (dict(density=2), dict(density=4), dict(refine=True), dict(constraints=2, discrete=1), dict(spell="npscalar"), dict(holder="zerod")):
            cfg = dict(N=N, r=2.0, box="B0" if N != 2 else "B1", **extra)
            dd = d - 1
            plan.append((cfg, "A013", dd))
            tasks += [dict(t, alphabet_name="A013") for t in tree.tree_tasks(cfg, ALPHABETS["A013"], dd, split=3)]
    # value domains (all negative, tiny across zero, closer than 1e-9) and values of r outside the grid above
    for N in (1, 2):
        bx = "B0" if N != 2 else "B1"
        for cfg, a in [(dict(N=N, r=2.0, box=bx), a) for a in ("Aneg", "Atiny", "Anear", "Anegbig", "Aoffs")] + \
                      [(dict(N=N, r=r, box=bx), "Am201") for r in (4.0, 16.0, 12.5, 1.01)]:
            dd = d - 2
            plan.append((cfg, a, dd))
            tasks += [dict(t, alphabet_name=a) for t in tree.tree_tasks(cfg, ALPHABETS[a], dd, split=3)]
    # step-wise histories with a local refinement that gains a lot, finished by Solve
    stasks = []
    for kind in WELLS:
        for c in (0.37, 0.61, 0.83, 0.12):
            for k in (3, 6, 10, 17):
                for n_loc in (5, 25):
                    for eps, limit in ((1e-3, 150), (1e-5, 150), (1e-3, 40)):
                        stasks.append(dict(kind=kind, c=c, k=k, n_loc=n_loc, limit=limit, eps=eps, N=1, r=2.5))
                    stasks.append(dict(kind=kind, c=c, k=k, n_loc=n_loc, limit=200, eps=1e-3, N=1, r=2.5, again=5))
                    if th or k in (6, 10):
                        stasks.append(dict(kind=kind, c=c, k=k, n_loc=n_loc, limit=300, eps=0.02, N=2, r=3.0))
    sout = pmap(stepwise_chunk, [stasks[i:i + 24] for i in range(0, len(stasks), 24)])
    for chunk, msgs_l in zip([stasks[i:i + 24] for i in range(0, len(stasks), 24)], sout):
        for t, msgs in zip(chunk, msgs_l):
            for m in msgs:
                res.add_violation(dict(driver="stepwise", task=t,
                                   message=f"{t['kind']} objective at u={t['c']}, N={t['N']}: DoGlobalIteration({t['k']}), "
                                           f"DoLocalRefinement({t['n_loc']}), Solve (eps={t['eps']}, itersLimit={t['limit']}): {m}"))
    out = pmap(block, tasks)
    runs = hist = classes = nontriv = 0
    outcomes = set()
    for stats, viol in out:
        runs += stats["runs"]
        hist += stats["histories"]
        classes += stats["classes"]
        nontriv += stats["nontrivial"]
        outcomes |= {tuple(o) for o in stats["outcomes"]}
        res.merge_violations(viol)
    # resolution horizon
    htasks = []
    for env in ("abs13", "lin", "quad"):
        for eps in (1e-18, 1e-30):
            cfg = dict(N=1, r=2.0, box="B0", env=env, eps=eps, itersLimit=3000 if th else 400)
            devs = list(tree.deviation_sets(12 if th else 6, 2, 1, start=2))
            htasks += [dict(cfg=cfg, dev=[list(p) for p in dv]) for dv in devs]
    hout = pmap(horizon_case, htasks)
    hstops = {}
    for st, viol in hout:
        hstops[st["n"]] = hstops.get(st["n"], 0) + 1
        res.merge_violations(viol)
    res.cov = dict(
        states=hist, transitions=runs, traces_validated_against_impl=runs + len(htasks),
        evaluations=runs + len(htasks), distinct_nontrivial=nontriv,
        rule="states = answer histories (complete leaves of the tree); transitions = Solve executions, one per "
             "(history, eps class, itersLimit in 1..d+1); non-trivial = executions that stopped by accuracy strictly "
             "before the budget after more than one trial",
        exhaustive=True, eps_classes=classes, distinct_outcomes=len(outcomes),
        plan=[dict(cfg=c, alphabet=a, depth=dd) for c, a, dd in plan],
        horizon_executions=len(htasks), horizon_stop_counts={str(k): v for k, v in sorted(hstops.items(), key=str)},
        samples=[dict(cfg=tasks[0]["cfg"], alphabet=tasks[0]["alphabet"], prefix=tasks[0]["prefix"],
                      depth=tasks[0]["depth"], eps_classes="all", itersLimit="1..d+1"), htasks[0]],
    )
    res.assumptions = ["the lengths D_k are computed by the reference model from the trials the run itself reported "
                       "to a listener; objective values restricted to the alphabets"]
    return res


def replay(rec):
    if rec["driver"] == "stepwise":
        return stepwise_case(rec["task"])
    cfg = rec["cfg"]
    if rec["driver"] == "horizon":
        _, viol = horizon_case(dict(cfg=cfg, dev=rec["dev"]))
        want = (rec.get("sig") or {}).get("kind")
        viol = [v for v in viol if want is None or v["sig"].get("kind") == want]
        rec["sig"] = viol[0]["sig"] if viol else rec.get("sig")
        return [v["message"] for v in viol]
    o = solve_once(cfg, tree.scripted(rec["choices"], rec["alphabet"], rec["alphabet"][0]))
    msgs, _ = judge(cfg, o, cfg["itersLimit"], cfg["eps"])
    if rec.get("pre") and not msgs and not o["error"]:
        o2 = solve_once(cfg, tree.scripted(rec["choices"], rec["alphabet"], rec["alphabet"][0]), pre=rec["pre"])
        msgs, _ = judge(cfg, o2, cfg["itersLimit"], cfg["eps"])
        if not o2["error"] and not msgs and (o2["n"], o2["acc"]) != (o["n"], o["acc"]):
            msgs = [f"DoGlobalIteration({rec['pre']}) then Solve: {o2['n']} trials, accuracy {o2['acc']!r}; Solve alone: "
                    f"{o['n']} trials, accuracy {o['acc']!r}"]
    return msgs

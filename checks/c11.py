"""C11 - determinism and independence from how iterations are batched.

Exhaustive over call histories: every composition of every n' <= n into DoGlobalIteration batches,
followed by Solve for every eps class of the C03 quotient and a structured set of budgets, followed
by a second Solve.  The evaluation log must be a bit-for-bit prefix of the canonical sequence."""
import json
import os
import subprocess
import sys

import numpy as np

from mc.common import Result, pmap, VERIF
from mc import tree
from mc.env import Snapshot
from mc.envs import make_env
from mc.refmodel import RefAGP

PROPERTY = "C11"
LEVEL = "model_checking"

SCRIPT = [3.0, 0.0, 1.0, 1.0, 0.0, 2.0, -1.0, 2.0, 0.5, -1.0, 4.0, 0.0, 0.0, 1.0, 7.0, -3.0, 1.0, 2.0, 2.0, 0.0]

OBJECTIVES = [
    dict(N=1, r=2.0, box="B0", env="abs13"),
    dict(N=1, r=3.5, box="B1", env="sin"),
    dict(N=2, r=2.0, box="B1", env="lin"),
    dict(N=2, r=2.5, box="B2", env="quad"),
    dict(N=3, r=2.0, box="B0", env="stair"),
    dict(N=1, r=2.0, box="B0", env="script"),
    dict(N=2, r=1.5, box="B0", env="script"),
    dict(N=1, r=2.0, box="B0", env="const"),
    dict(N=4, r=2.0, box="B1", env="abs13"),
    dict(N=5, r=3.0, box="B0", env="sin"),
    dict(N=2, r=2.0, box="B1", env="quad", density=4),
]


def env_of(cfg):
    if cfg["env"] == "script":
        return lambda k, y: SCRIPT[(k - 1) % len(SCRIPT)]
    return make_env(cfg["env"], cfg)


def compositions(n):
    """all ordered tuples of positive integers summing to n"""
    if n == 0:
        yield ()
        return
    for first in range(1, n + 1):
        for rest in compositions(n - first):
            yield (first,) + rest


def hexlog(log):
    return [([float(v).hex() for v in y], float(z).hex()) for y, z in log]


def state_of(run):
    s = Snapshot(run.solver)
    return (None if s.best_point is None else [float(v).hex() for v in s.best_point],
            None if s.best_value is None else float(s.best_value).hex(), s.nglobal, float(s.accuracy).hex())


def canonical(cfg, total):
    """(log of DoGlobalIteration(total) in one call, per-length states by single steps, lengths D_2..)"""
    f = env_of(cfg)
    run = tree.make_run(cfg, f)
    run.step(total)
    log = hexlog(run.problem.log)
    run1 = tree.make_run(cfg, f)
    states = [None]
    ref = RefAGP(cfg["N"], cfg["r"])
    D = []
    for j in range(1, total + 1):
        run1.step(1)
        states.append(state_of(run1))
        known = set(ref.xs)
        x = [it.x for it in Snapshot(run1.solver).items if it.x not in known][0]
        if ref.trials:
            i = ref.interval_of(x)
            D.append(ref.hold(ref.xs[i - 1], ref.xs[i]))
        ref.add(x, run1.problem.log[-1][1])
    return log, states, D


def eps_classes(D):
    ds = sorted(set(D))
    out = [ds[0] * 0.5]
    for a, b in zip(ds, ds[1:]):
        out.append(0.5 * (a + b))
    out += ds
    out.append(1.0)
    return sorted(set(out))


def one_history(cfg, f, comp, eps, L, canon, states, D, n_total):
    """batches `comp`, then Solve(eps, L), then Solve again; returns messages"""
    msgs = []
    run = tree.make_run(dict(cfg, eps=eps, itersLimit=L), f)
    done = 0
    for b in comp:
        run.step(b)
        done += b
        log = hexlog(run.problem.log)
        if log != canon[:done]:
            return [f"after batches {list(comp[:comp.index(b) + 1])}: evaluation log differs from the canonical sequence "
                    f"(first difference at trial {next((i + 1 for i, (a, c) in enumerate(zip(log, canon)) if a != c), len(log))})"]
        if done >= 1 and state_of(run) != states[done]:
            msgs.append(f"GetResults() after batches summing to {done} = {state_of(run)} differs from the canonical "
                        f"state {states[done]}")
    try:
        run.solve()
    except BaseException as e:
        return msgs + [f"Solve raised {type(e).__name__}: {e}"]
    kstar = next((k for k, d in enumerate(D, start=2) if d < eps), None)
    nstop = min(L, kstar) if kstar is not None else L
    expect = max(done, nstop)
    log = hexlog(run.problem.log)
    if log != canon[:len(log)]:
        msgs.append(f"batches {list(comp)} then Solve(eps={eps!r}, itersLimit={L}): evaluation log is not a prefix of the "
                    f"canonical sequence")
    if len(log) != expect:
        msgs.append(f"batches {list(comp)} then Solve(eps={eps!r}, itersLimit={L}): {len(log)} trials, expected {expect} "
                    f"(= max(batches {done}, first moment the stop criterion holds {nstop}))")
    elif expect >= 1 and state_of(run) != states[expect]:
        msgs.append(f"batches {list(comp)} then Solve: result {state_of(run)} differs from canonical state {states[expect]}")
    n1 = len(run.problem.log)
    try:
        run.solve()
    except BaseException as e:
        return msgs + [f"second Solve raised {type(e).__name__}: {e}"]
    if len(run.problem.log) != n1:
        msgs.append(f"batches {list(comp)}, Solve(eps={eps!r}, itersLimit={L}) twice: the second Solve performed "
                    f"{len(run.problem.log) - n1} further global trials")
    return msgs


def work(task):
    cfg, n, zero = task["cfg"], task["n"], task["zero"]
    total = n + 3
    f = env_of(cfg)
    canon, states, D = canonical(cfg, total)
    viol = []
    stats = dict(runs=0, comps=0, outcomes=set())
    # repeat: determinism inside one process
    canon2, _, _ = canonical(cfg, total)
    if canon2 != canon:
        viol.append(dict(driver="repeat", cfg=cfg, n=n, message="two runs of the same problem give different sequences",
                         sig={}))
    epss = eps_classes(D)
    for np_ in task["sums"]:
        for comp in compositions(np_):
            variants = [comp]
            if zero and len(comp) <= 3:
                variants += [comp[:i] + (0,) + comp[i:] for i in range(len(comp) + 1)]
            for cv in variants:
                stats["comps"] += 1
                full = len(cv) <= 1 or all(b == 1 for b in cv)
                Ls = range(1, n + 3) if full else sorted({max(1, np_ - 1), np_ + 1, n + 2})
                for eps in epss:
                    for L in Ls:
                        stats["runs"] += 1
                        for m in one_history(cfg, f, cv, eps, L, canon, states, D, total):
                            viol.append(dict(driver="batch", cfg=cfg, n=n, comp=list(cv), eps=eps, itersLimit=L,
                                             message=m, sig={}))
                if len(viol) > 20:
                    break
    return stats, viol


LONG = [
    dict(N=1, r=3.0, box="B1", env="cos3"),
    dict(N=1, r=2.0, box="B0", env="sym"),
    dict(N=1, r=2.0, box="B0", env="const"),
    dict(N=2, r=2.5, box="B0", env="sym"),
    dict(N=2, r=3.0, box="B1", env="cos3"),
    dict(N=1, r=2.0, box="B0", env="quad"),
    dict(N=2, r=3.0, env="bench:Rastrigin:2", T=320),
    dict(N=1, r=2.5, env="bench:Hill:3", T=160),
    dict(N=2, r=2.5, env="bench:Grishagin:5", T=160),
]


def long_task(task):
    """objectives with many exactly equal characteristics (symmetric about the centre, constant): DoGlobalIteration(k)
    [+ DoGlobalIteration(j)] then Solve up to T trials, for EVERY k < T - the sequence must be the canonical one
    whatever k is (the order in which equal characteristics leave the queue may not depend on the call pattern)"""
    cfg, T = task["cfg"], task["T"]
    f = env_of(cfg)
    run = tree.make_run(cfg, f)
    viol = []
    for j in range(1, T + 1):
        try:
            run.step(1)
        except BaseException as e:
            if tree._horizon(run, cfg):
                T = j - 1        # doubles cannot split the interval any more (C03 known finding): the run ends here
                break
            return 0, [dict(driver="long", cfg=cfg, T=T, comp=[1] * j, message=f"DoGlobalIteration(1) raised "
                            f"{type(e).__name__}: {e} at trial {j}", sig={})]
    canon = hexlog(run.problem.log)
    n = 0
    for k in [k for k in task["ks"] if k < T]:
        for second in (0, 5):
            comp = [k] + ([second] if second and k + second < T else [])
            r = tree.make_run(dict(cfg, eps=0.0, itersLimit=T), f)
            try:
                for b in comp:
                    r.step(b)
                r.solve()
            except BaseException as e:
                viol.append(dict(driver="long", cfg=cfg, T=task["T"], comp=comp, message=f"batches {comp} then Solve raised "
                                 f"{type(e).__name__}: {e}", sig={}))
                continue
            n += 1
            log = hexlog(r.problem.log)
            if log != canon:
                d = next((i + 1 for i, (a, c) in enumerate(zip(log, canon)) if a != c), min(len(log), len(canon)) + 1)
                viol.append(dict(driver="long", cfg=cfg, T=task["T"], comp=comp,
                                 message=f"{cfg['env']} N={cfg['N']}: batches {comp} then Solve(itersLimit={T}) made "
                                         f"{len(log)} trials and differs from DoGlobalIteration({T}) at trial {d}", sig={}))
        if len(viol) > 5:
            break
    return n, viol


def replay_long(rec):
    return [v["message"] for v in long_task(dict(cfg=rec["cfg"], T=rec["T"], ks=[rec["comp"][0]]))[1]]


def refine_case(task):
    """refineSolution=True: batches, Solve, Solve again.  The global search of the second Solve performs no trial: the
    number of global trials reported, the trials told to listeners and the trial record stay what they were."""
    from mc.env import Recorder
    cfg, comp = task["cfg"], task["comp"]
    f = env_of(cfg)
    told = []
    rec = Recorder(on_iter=lambda pts, sol: told.extend(p.GetX() for p in pts))
    run = tree.make_run(dict(cfg, eps=task["eps"], itersLimit=task["limit"], refine=True), f, listeners=[rec])
    tag = f"{cfg['env']} N={cfg['N']} refineSolution=True, batches {comp}, Solve(eps={task['eps']}, itersLimit={task['limit']})"
    try:
        for b in comp:
            run.step(b)
        s1 = run.solve()
        n1, t1, c1 = s1.numberOfGlobalTrials, len(told), run.solver.searchData.GetCount()
        msgs = []
        if n1 != t1:
            msgs.append(f"{tag}: {n1} global trials reported, {t1} trials were told to the listener")
        if c1 != t1 + 2:
            msgs.append(f"{tag}: the search information holds {c1} items after {t1} trials")
        for again in (2, 3):
            s2 = run.solve()
            if (s2.numberOfGlobalTrials, len(told), run.solver.searchData.GetCount()) != (n1, t1, c1):
                msgs.append(f"{tag}: Solve number {again} on the finished solver changed (global trials reported, trials told, "
                            f"items) from {(n1, t1, c1)} to {(s2.numberOfGlobalTrials, len(told), run.solver.searchData.GetCount())}")
                break
        return msgs
    except BaseException as e:
        return [f"{tag}: raised {type(e).__name__}: {e}"]


def loop_case(task):
    """A user loop over problems with ONE SolverParameters object: the run for (problem, parameters) must give the same
    trial sequence wherever it stands in the loop - first, after problems of other dimensions, or with new parameters."""
    from iOpt.solver import Solver
    from iOpt.solver_parametrs import SolverParameters
    from mc.common import quiet
    from mc.env import EnvProblem, box
    m, dims, env, refine = task["m"], task["dims"], task["env"], task.get("refine", False)
    mk = lambda: SolverParameters(eps=0.01, r=3.0, itersLimit=task["limit"], evolventDensity=m, refineSolution=refine)

    def one(N, params):
        lo, up = box("B1", N)
        p = EnvProblem(N, lo, up, make_env(env, dict(N=N, lower=lo, upper=up)))
        with quiet():
            s = Solver(p, params)
            s.DoGlobalIteration(5)
            sol = s.Solve()
        return hexlog(p.log), sol.numberOfGlobalTrials

    shared = mk()
    tag = f"{env}, evolventDensity={m}, one SolverParameters object for problems of dimensions {dims}"
    try:
        first = {}
        for i, N in enumerate(dims):
            got = one(N, shared)
            if N in first and got != first[N]:
                a, b = first[N][0], got[0]
                d = next((j for j, (u, v) in enumerate(zip(a, b)) if u != v), min(len(a), len(b)))
                return [f"{tag}: the run for N={N} at position {i + 1} of the loop differs from the same run earlier in the "
                        f"loop at trial {d + 1} ({got[1]} vs {first[N][1]} trials)"]
            first.setdefault(N, got)
        for N in sorted(first):
            fresh = one(N, mk())
            if fresh != first[N]:
                a, b = first[N][0], fresh[0]
                d = next((j for j, (u, v) in enumerate(zip(a, b)) if u != v), min(len(a), len(b)))
                return [f"{tag}: the run for N={N} with a new, equal SolverParameters object differs from the run inside "
                        f"the loop at trial {d + 1}"]
    except BaseException as e:
        return [f"{tag}: raised {type(e).__name__}: {e}"]
    return []


def dump():
    """print the canonical logs (used for the cross-process determinism comparison)"""
    out = {}
    for i, cfg in enumerate(OBJECTIVES):
        log, states, D = canonical(cfg, 14)
        out[str(i)] = dict(log=log, states=states)
    print("DUMP" + json.dumps(out))


def cross_process(seeds=(1, 2)):
    outs = []
    for hs in seeds:
        env = dict(os.environ)
        env["PYTHONHASHSEED"] = str(hs)
        p = subprocess.run([sys.executable, "-c", "from checks import c11; c11.dump()"], cwd=VERIF, env=env,
                           capture_output=True, text=True)
        line = [l for l in p.stdout.splitlines() if l.startswith("DUMP")]
        outs.append(json.loads(line[0][4:]) if line else {"error": p.stderr[-500:]})
    return outs


def run(ctx):
    res = Result()
    th = ctx.thorough
    n = 11 if th else 8
    objs = OBJECTIVES if th else OBJECTIVES[:5] + ctx.pick(OBJECTIVES[5:10], 2) + OBJECTIVES[10:]
    tasks = []
    for cfg in objs:
        nn = n if cfg["N"] <= 2 else n - 1
        # split the sums over tasks for load balance
        for s in range(0, nn + 1):
            tasks.append(dict(cfg=cfg, n=nn, sums=[s], zero=th or s <= 4))
    tasks.sort(key=lambda t: -t["sums"][0])
    out = pmap(work, tasks)
    runs = comps = 0
    for st, viol in out:
        runs += st["runs"]
        comps += st["comps"]
        res.merge_violations(viol)
    T = 200 if th else 100
    ltasks = [dict(cfg={k: v for k, v in cfg.items() if k != "T"}, T=cfg.get("T", T),
                   ks=list(range(a, min(cfg.get("T", T), a + 10))))
              for cfg in LONG for a in range(1, cfg.get("T", T), 10)]
    nlong = 0
    for t, (k, viol) in zip(ltasks, pmap(long_task, ltasks)):
        nlong += k
        runs += k
        res.merge_violations(viol)
    rtasks = []
    for cfg in OBJECTIVES[:5] if not th else OBJECTIVES:
        for comp in ([], [3], [1, 2], [5, 4]):
            for eps, limit in ((0.05, 60), (0.0, 7), (0.0, 12)):
                rtasks.append(dict(cfg=cfg, comp=comp, eps=eps, limit=limit))
    for t, msgs in zip(rtasks, pmap(refine_case, rtasks, chunksize=4)):
        runs += 1
        for m in msgs:
            res.add_violation(dict(driver="refine", **t, message=m, sig={}))
    # one SolverParameters object serving a loop over problems
    ptasks = []
    for m in (3, 10, 12, 16, 20):
        for dims in ([2, 3, 5, 2], [2, 7, 2], [1, 6, 1, 3, 6], [4, 8, 4], [5, 2, 5]):
            for env in ("sin", "abs13"):
                ptasks.append(dict(cfg={}, m=m, dims=dims, env=env, limit=40 if th else 25, refine=(m == 12)))
    for t, msgs in zip(ptasks, pmap(loop_case, ptasks, chunksize=2)):
        runs += len(t["dims"])
        for mm in msgs:
            res.add_violation(dict(driver="loop", **t, message=mm, sig={}))
    # checkpoint histories: the solver is copied (deepcopy / pickle) mid-run and the search continued on copy and original
    from mc import copyrun
    ctasks = copyrun.tasks(th)
    for t, msgs in zip(ctasks, pmap(copyrun.case_c11, ctasks, chunksize=4)):
        runs += 3
        for mm in msgs:
            res.add_violation(dict(driver="copy", cfg={}, task=t, message=mm, sig={}))
    # determinism across processes / hash seeds
    here = {}
    for i, cfg in enumerate(OBJECTIVES):
        log, states, D = canonical(cfg, 14)
        here[str(i)] = json.loads(json.dumps(dict(log=log, states=states)))
    for hs, other in zip((1, 2), cross_process()):
        if other != here:
            bad = [k for k in here if other.get(k) != here[k]]
            res.add_violation(dict(driver="process", hashseed=hs, message=f"fresh process with PYTHONHASHSEED={hs} gives a "
                                   f"different trial sequence for objectives {bad} {other.get('error', '')}", sig={}))
    res.cov = dict(
        states=comps, transitions=runs, traces_validated_against_impl=runs, evaluations=runs,
        distinct_nontrivial=comps - len(tasks),
        rule="states = call histories (compositions of n' <= n into DoGlobalIteration batches, optionally with a zero "
             "batch); transitions = executions: history + Solve(eps class, budget) + second Solve, compared bit for bit "
             "with the canonical sequence; non-trivial = compositions with at least one batch",
        exhaustive=True, n=n, objectives=objs, processes_compared=2, long_single_batch_histories=nlong, long_T=T,
        long_objectives=LONG,
        samples=[dict(cfg=objs[0], comp=[2, 1, 3], eps="every class", itersLimit="s-1, s+1, n+2")],
    )
    res.assumptions = ["objectives from a fixed list; for compositions other than single-batch / all-ones only three "
                       "budgets (s-1, s+1, n+2) are crossed with all eps classes"]
    return res


def replay(rec):
    cfg = rec["cfg"]
    if rec["driver"] == "process":
        here = {}
        for i, c in enumerate(OBJECTIVES):
            log, states, D = canonical(c, 14)
            here[str(i)] = json.loads(json.dumps(dict(log=log, states=states)))
        return [f"hash seed {hs}: different sequence" for hs, o in zip((1, 2), cross_process()) if o != here]
    if rec["driver"] == "long":
        return replay_long(rec)
    if rec["driver"] == "refine":
        return refine_case(rec)
    if rec["driver"] == "copy":
        from mc import copyrun
        return copyrun.case_c11(rec["task"])
    if rec["driver"] == "loop":
        return loop_case(rec)
    n = rec["n"]
    canon, states, D = canonical(cfg, n + 3)
    if rec["driver"] == "repeat":
        return [] if canonical(cfg, n + 3)[0] == canon else ["two runs differ"]
    return one_history(cfg, env_of(cfg), tuple(rec["comp"]), rec["eps"], rec["itersLimit"], canon, states, D, n + 3)

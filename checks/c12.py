"""C12 - solver instances are isolated from one another.

Exhaustive interleavings: (a) all merges of the operation lists of 2 and 3 solvers (create, iterate,
Solve, read) at operation granularity; (b) all schedules at evaluation-point granularity - each solver
body runs in its own thread under a baton scheduler whose only switch points are operation boundaries
and the entry of the user objective (i.e. in the middle of an iteration).  After every step every
solver at rest and every Solution obtained earlier is compared with the solo run of that solver at the
same own progress."""
import numpy as np

from mc.common import Result, pmap, pmap_fresh, quiet
from mc import sched
from mc.env import box

from iOpt.problem import Problem
from iOpt.solver import Solver
from iOpt.solver_parametrs import SolverParameters

PROPERTY = "C12"
LEVEL = "model_checking"

FUNCS = {
    # minimum at the seed point: the first trial stays the optimum
    "quad0": lambda u: float(np.sum((u - 0.5) ** 2)),
    "mono": lambda u: float(5.0 + np.sum(u)),
    "const": lambda u: 1.0,
    "neg": lambda u: float(-2.0 - np.sum(np.abs(u - 0.3))),
    # a smooth step written with numpy scalars: np.exp overflows to inf on one side (harmlessly, the term becomes 0)
    "step": lambda u: float(np.sum(1.0 / (1.0 + np.exp(-4000.0 * (np.asarray(u, dtype=np.float64) - 0.9))) + 0.1 * (u - 0.05) ** 2)),
}


class P(Problem):
    def __init__(self, fname, N, bx, hook=None):
        super().__init__()
        lo, up = box(bx, N)
        self.numberOfFloatVariables = N
        self.numberOfObjectives = 1
        self.numberOfConstraints = 0
        self.floatVariableNames = [str(i) for i in range(N)]
        self.lowerBoundOfFloatVariables = np.array(lo, dtype=float)
        self.upperBoundOfFloatVariables = np.array(up, dtype=float)
        self.lo = np.array(lo)
        self.w = np.array(up) - np.array(lo)
        self.f = FUNCS[fname]
        self.log = []
        self.hook = hook

    def Calculate(self, point, fv):
        if self.hook:
            self.hook()
        y = np.array(point.floatVariables, dtype=float)
        v = self.f((y - self.lo) / self.w)
        self.log.append((tuple(y.tolist()), v))
        fv.value = v
        return fv


def snap_solver(s, p):
    if s is None:
        return None
    rec = []
    if s.searchData.GetCount():
        for it in s.searchData:
            rec.append((it.GetX(), tuple(np.asarray(it.GetY().floatVariables).tolist()), it.GetZ(), it.delta,
                        it.functionValues[0].value if it.GetIndex() == 0 else None))
            if len(rec) > 200:
                break
    r = s.GetResults()
    best = None
    if p.log:
        b = r.bestTrials[0]
        if hasattr(b.point, "floatVariables"):     # still the placeholder before this solver's first trial
            best = (tuple(np.asarray(b.point.floatVariables).tolist()), b.functionValues[0].value)
    # numpy's floating-point error handling is process-wide state every objective depends on
    return dict(log=list(p.log), rec=rec, best=best, cnt=r.numberOfGlobalTrials, acc=r.solutionAccuracy,
                fperr=tuple(sorted(np.geterr().items())))


def snap_solution(sol):
    if sol is None:
        return None
    b = sol.bestTrials[0]
    return (tuple(np.asarray(b.point.floatVariables).tolist()), b.functionValues[0].value, sol.numberOfGlobalTrials,
            sol.solutionAccuracy)


def _params(spec, values=None):
    kw = dict(eps=spec["eps"], r=spec["r"], itersLimit=spec["limit"])
    if values is not None:
        kw.update(values)
    if spec.get("refine"):
        kw["refineSolution"] = True
    if spec.get("density") is not None:
        kw["evolventDensity"] = spec["density"]
    return SolverParameters(**kw)


class Actor:
    """one solver with its operation list.  spec['share'] says what the solvers of one execution have in
    common (`env` is the per-execution pool of shared objects; a solo reference run gets a pool of its own):
      own      nothing: own Problem, own SolverParameters                              (default)
      params   one SolverParameters object handed to every solver
      default  no parameters argument at all (the Solver's default argument)
      problem  one Problem object handed to every solver (own parameters)
      listener one console listener object attached to every solver (own Problem, own parameters)
      values   own Problem and own SolverParameters, but the parameter VALUES are the same objects: r and eps written
               once as 0-d numpy arrays (np.asarray(2.5)) and handed to every SolverParameters"""

    def __init__(self, spec, hook=None, env=None):
        self.spec = spec
        self.env = env if env is not None else {}
        self.share = spec.get("share", "own")
        if self.share == "problem":
            if "problem" not in self.env:
                self.env["problem"] = P(spec["f"], spec["N"], spec["box"], hook)
            self.p = self.env["problem"]
        else:
            self.p = P(spec["f"], spec["N"], spec["box"], hook)
        self.s = None
        self.sol = None
        self.prog = 0
        self.env.setdefault("actors", []).append(self)

    def do(self, op):
        with quiet():
            if op == "c":
                if self.share == "params":
                    if "params" not in self.env:
                        self.env["params"] = _params(self.spec)
                    self.s = Solver(self.p, self.env["params"])
                elif self.share == "values":
                    if "values" not in self.env:
                        self.env["values"] = dict(r=np.asarray(float(self.spec["r"])), eps=np.asarray(float(self.spec["eps"])))
                    self.s = Solver(self.p, _params(self.spec, self.env["values"]))
                elif self.share == "default":
                    self.s = Solver(self.p)
                else:
                    self.s = Solver(self.p, _params(self.spec))
                if self.share == "listener":
                    # one shipped console listener object attached to every solver of the execution
                    if "listener" not in self.env:
                        from iOpt.method.listener import ConsoleFullOutputListener
                        self.env["listener"] = ConsoleFullOutputListener(mode=self.spec.get("console", "result"))
                    self.s.AddListener(self.env["listener"])
            elif op == "i":
                self.s.DoGlobalIteration(1)
            elif op == "I":
                self.s.DoGlobalIteration(2)
            elif op == "S":
                self.sol = self.s.Solve()
            elif op == "L":
                self.s.DoLocalRefinement(4)
                self.sol = self.s.GetResults()
            elif op == "B":
                # this solver's evolvent is re-configured by the user (SetBounds to a shifted box): its own business only
                lo = np.array(self.p.lowerBoundOfFloatVariables, dtype=float) + 0.25 * (self.spec.get("shift", 1))
                up = np.array(self.p.upperBoundOfFloatVariables, dtype=float) + 0.5 * (self.spec.get("shift", 1))
                self.s.evolvent.SetBounds(lo, up)
            elif op == "P":
                # a read-only query of this solver's evolvent about the points the OTHER solvers report as their optima
                # (the arrays themselves are handed over, as a user comparing solvers would)
                for other in self.env.get("actors", []):
                    if other is not self and other.s is not None and other.p.log:
                        pt = other.s.GetResults().bestTrials[0].point.floatVariables
                        if len(pt) == self.spec["N"]:
                            self.s.evolvent.GetPreimages(pt)
                            self.s.evolvent.GetInverseImage(pt)
            elif op == "r":
                self.s.GetResults()
        self.prog += 1

    def state(self):
        st = snap_solver(self.s, self.p)
        if st is not None and self.share == "problem":
            st["log"] = None      # the shared Problem's log interleaves by construction; everything else must agree
        return (st, snap_solution(self.sol))


def solo(spec, ops):
    a = Actor(spec)
    out = [a.state()]
    for op in ops:
        a.do(op)
        out.append(a.state())
    return out


def _solo_job(job):
    spec, ops = job
    try:
        return solo(spec, ops)
    except BaseException as e:      # the solver running alone, in an interpreter of its own, fails: reported as it is
        import traceback
        tb = traceback.extract_tb(e.__traceback__)
        where = next((f"{fr.filename.split('/')[-1]}:{fr.lineno}" for fr in reversed(tb) if "/iOpt/" in fr.filename), "?")
        return dict(crash=f"{type(e).__name__}: {e} (raised at {where})")


def solo_crashes(tasks, table, res):
    """drop the tasks whose solo reference could not be computed; each distinct failing solo run is one finding"""
    keep, seen = [], set()
    for t in tasks:
        bad = [sp for sp in t["specs"] if isinstance(table[_key(sp, t["ops"])], dict)]
        for sp in bad:
            k = _key(sp, t["ops"])
            if k not in seen:
                seen.add(k)
                res.add_violation(dict(driver="solo", spec=sp, ops=t["ops"], sig={},
                                       message=f"solver {sp['f']} N={sp['N']} running alone in a fresh interpreter, ops "
                                               f"{t['ops']}: {table[k]['crash']}"))
        if not bad:
            keep.append(t)
    return keep


def _key(spec, ops):
    import json
    return json.dumps([spec, ops], sort_keys=True)


def fresh_solos(pairs):
    """The reference of the property is the solver running ALONE: every distinct (spec, ops) is executed in a
    process of its own (spawned, one job per process), so nothing an earlier solver left behind in the
    interpreter can leak into the reference."""
    import multiprocessing as mp
    uniq = {}
    for spec, ops in pairs:
        uniq.setdefault(_key(spec, ops), (spec, ops))
    keys = list(uniq)
    if not keys:
        return {}
    with mp.get_context("spawn").Pool(min(16, len(keys)), maxtasksperchild=1) as pool:
        vals = pool.map(_solo_job, [uniq[k] for k in keys], 1)
    return dict(zip(keys, vals))


def refs_for(task):
    if task.get("refs") is not None:
        return task["refs"]
    table = fresh_solos([(sp, task["ops"]) for sp in task["specs"]])
    return [table[_key(sp, task["ops"])] for sp in task["specs"]]


def describe_diff(a, b):
    if a is None or b is None:
        return f"{a} vs {b}"
    (sa, la), (sb, lb) = a, b
    if la != lb:
        return f"Solution obtained earlier reports {la}, alone it reports {lb}"
    for k in ("log", "best", "cnt", "acc", "rec"):
        if (sa or {}).get(k) != (sb or {}).get(k):
            va, vb = (sa or {}).get(k), (sb or {}).get(k)
            if k in ("log", "rec") and va and vb:
                i = next((i for i, (x, y) in enumerate(zip(va, vb)) if x != y), min(len(va), len(vb)))
                return f"{k} differs at entry {i}: {va[i] if i < len(va) else None} vs alone {vb[i] if i < len(vb) else None}"
            return f"{k}: {va} vs alone {vb}"
    return "?"


def merge_task(task):
    specs, ops, first = task["specs"], task["ops"], task["first"]
    refs = refs_for(task)
    n = len(specs)
    viol = []
    count = 0
    outcomes = set()
    alternations = 0
    for tail in sched.merges([len(ops) - (1 if i == first else 0) for i in range(n)]):
        if task.get("upto") is not None and count > task["upto"]:
            break
        order = ((first,) if first is not None else ()) + tail
        env = {}
        actors = [Actor(sp, env=env) for sp in specs]
        bad = None
        for step, w in enumerate(order):
            try:
                actors[w].do(ops[actors[w].prog])
            except Exception as e:      # alone the same operation list runs through (the reference exists)
                bad = (step, w, f"operation {ops[actors[w].prog]!r} raised {type(e).__name__}: {e}")
                break
            for j, a in enumerate(actors):
                if a.prog and a.state() != refs[j][a.prog]:
                    bad = (step, j, describe_diff(a.state(), refs[j][a.prog]))
                    break
            if bad:
                break
        count += 1
        alternations += sum(1 for x, y in zip(order, order[1:]) if x != y) > 2
        outcomes.add(repr([a.state()[1] for a in actors]))
        if bad:
            step, j, why = bad
            viol.append(dict(driver="merge", specs=specs, ops=ops, order=list(order[:step + 1]), first=first, upto=count - 1,
                             message=f"after step {step + 1} of interleaving {list(order[:step + 1])} (ops {ops}) solver {j} "
                                     f"({specs[j]['f']}) differs from its solo run at the same progress: {why}", sig={}))
            if len(viol) > 5:
                break
    return count, alternations, len(outcomes), viol


def replay_merge(rec):
    specs, ops, order = rec["specs"], rec["ops"], rec["order"]
    refs = refs_for(rec)
    if rec.get("upto") is not None:
        # the finding may need what the earlier interleavings of the same process left behind: re-execute them all
        # (each task of the exploration runs in a process of its own, so this is the complete history)
        n, a, o, viol = merge_task(dict(specs=specs, ops=ops, first=rec["first"], refs=refs, upto=rec["upto"]))
        return [v["message"] for v in viol if v["order"] == list(order)][:1] or [v["message"] for v in viol][:1]
    env = {}
    actors = [Actor(sp, env=env) for sp in specs]
    for step, w in enumerate(order):
        try:
            actors[w].do(ops[actors[w].prog])
        except Exception as e:
            return [f"solver {w}: operation {ops[actors[w].prog]!r} raised {type(e).__name__}: {e} after step {step + 1}"]
        for j, a in enumerate(actors):
            if a.prog and a.state() != refs[j][a.prog]:
                return [f"solver {j} differs from its solo run after step {step + 1}: "
                        f"{describe_diff(a.state(), refs[j][a.prog])}"]
    return []


# ---------------------------------------------------------------- evaluation-point schedules

def baton_task(task):
    specs, ops, bound = task["specs"], task["ops"], task["bound"]
    refs = refs_for(task)
    viol = []
    stats = dict(alternating=0, outcomes=set())

    def make():
        ctx = dict(actors=[], resting=[True] * len(specs), bad=None, step=0)
        bodies = []
        for i, sp in enumerate(specs):
            cell = {}

            def hook(i=i, cell=cell):
                ctx["resting"][i] = False
                cell["yield"]()
                # resumed: still inside the iteration
            a = Actor(sp, hook)
            ctx["actors"].append(a)

            def body(y, a=a, i=i, cell=cell):
                cell["yield"] = y
                for op in ops:
                    a.do(op)
                    ctx["resting"][i] = True
                    y()
            bodies.append(body)

        def after(tid):
            ctx["step"] += 1
            if ctx["bad"]:
                return
            for j, a in enumerate(ctx["actors"]):
                if ctx["resting"][j] and a.prog and a.state() != refs[j][a.prog]:
                    ctx["bad"] = (ctx["step"], j, describe_diff(a.state(), refs[j][a.prog]))
                    return
                # a Solution obtained earlier must keep reporting its own optimum even while its solver is mid-iteration
                if a.sol is not None and snap_solution(a.sol) != refs[j][a.prog][1] and ctx["resting"][j]:
                    ctx["bad"] = (ctx["step"], j, "Solution changed")
        return bodies, after, ctx

    def on_exec(schedule, ctx, sch):
        for i, e in enumerate(sch.errors):
            if e is not None and not ctx["bad"]:
                ctx["bad"] = (ctx["step"], i, f"body raised {type(e).__name__}: {e}")
        sw = sum(1 for x, y in zip(schedule, schedule[1:]) if x != y)
        stats["n"] = stats.get("n", 0) + 1
        stats["alternating"] += sw > 2
        stats["outcomes"].add(repr([a.state()[1] for a in ctx["actors"]]))
        if ctx["bad"] and len(viol) < 5:
            step, j, why = ctx["bad"]
            viol.append(dict(driver="baton", specs=specs, ops=ops, schedule=list(schedule[:step]), bound=bound,
                             roots=[list(r) for r in (task.get("roots") or [task.get("root", ())])][:stats.get("root_index", 0) + 1],
                             upto=stats["n"],
                             message=f"schedule {list(schedule[:step])} (switch points: operation boundaries and objective "
                                     f"entry; ops {ops}): solver {j} ({specs[j]['f']}) differs from its solo run: {why}", sig={}))
    count, complete = 0, True
    roots = task.get("roots") or [task.get("root", ())]
    for ri, root in enumerate(roots):
        stats["root_index"] = ri
        stats["n"] = 0
        lim = task.get("limit") if ri == len(roots) - 1 else None
        c, comp = sched.explore_schedules(make, on_exec, bound=bound, limit=lim, root=root)
        count += c
        complete = complete and comp
        if viol:
            break
    return count, complete, stats["alternating"], len(stats["outcomes"]), viol


def replay_baton(rec):
    specs, ops, schedule = rec["specs"], rec["ops"], list(rec["schedule"])
    refs = refs_for(rec)
    if rec.get("upto") is not None:
        # complete in-process history: every schedule the exploring process executed before this one, in order
        out = baton_task(dict(specs=specs, ops=ops, bound=rec.get("bound"), roots=rec.get("roots") or [rec.get("root", ())],
                              refs=refs, limit=rec["upto"]))
        return [v["message"] for v in out[4]][:1]
    actors = []
    resting = [True] * len(specs)
    bodies = []
    for i, sp in enumerate(specs):
        cell = {}

        def hook(i=i, cell=cell):
            resting[i] = False
            cell["yield"]()
        a = Actor(sp, hook)
        actors.append(a)

        def body(y, a=a, i=i, cell=cell):
            cell["yield"] = y
            for op in ops:
                a.do(op)
                resting[i] = True
                y()
        bodies.append(body)
    msgs = []
    pos = [0]

    def choose(enabled, running):
        k = pos[0]
        pos[0] += 1
        if k < len(schedule) and schedule[k] in enabled:
            return schedule[k]
        return enabled[0]

    def after(tid):
        if msgs:
            return
        for j, a in enumerate(actors):
            if resting[j] and a.prog and a.state() != refs[j][a.prog]:
                msgs.append(f"solver {j} differs from its solo run: {describe_diff(a.state(), refs[j][a.prog])}")
    sched.BatonScheduler(bodies).run(choose, after)
    return msgs


def specs_for(N, fs, limit=8):
    out = []
    for k, f in enumerate(fs):
        out.append(dict(f=f, N=N, box=("B0", "B1", "B2")[k % 3], r=2.0 + k, eps=(0.05, 0.3, 0.12)[k % 3], limit=limit))
    return out


def run(ctx):
    res = Result()
    th = ctx.thorough
    tasks = []
    pairs = [("quad0", "mono"), ("const", "quad0"), ("neg", "quad0"), ("mono", "const")]
    for N in (1, 2) if not th else (1, 2, 3):
        for fs in pairs if th else pairs[:2] + ctx.pick(pairs[2:], 1):
            sp = specs_for(N, fs)
            ops = ["c", "i", "i", "S", "r"] if not th else ["c", "i", "I", "S", "i", "r"]
            tasks.append(dict(specs=sp, ops=ops, first=None))
        sp3 = specs_for(N, ("quad0", "mono", "const"))
        tasks.append(dict(specs=sp3, ops=["c", "i", "S"] if not (th and N == 1) else ["c", "i", "S", "r"], first=None))
    # what the solvers of one execution may legitimately have in common: one SolverParameters object, the default
    # parameters argument, one Problem object; dimensions 5/6 next to 2 so that a per-dimension adjustment of a
    # shared object would show
    def shared(share, dims, fs, ops, density=None, limit=8, eps=0.05, refine=False):
        sp = []
        for k, (n_, f) in enumerate(zip(dims, fs)):
            sp.append(dict(f=f, N=n_, box="B1" if share != "problem" else "B0", r=2.0, eps=eps, limit=limit, share=share,
                           density=density, refine=refine))
        if share == "problem":
            sp = [dict(sp[0]) for _ in dims]
        return [dict(specs=sp, ops=ops, first=None)]
    for dims in ((2, 1), (5, 2), (2, 5)) + (((1, 3), (3, 3)) if th else ()):
        for dens in (None, 12):
            tasks += shared("params", dims, ("quad0", "mono"), ["c", "i", "i", "S", "r"], density=dens)
    # the same parameter value objects (0-d arrays) inside otherwise separate SolverParameters
    for dims in ((1, 1), (2, 1), (2, 2)):
        tasks += shared("values", dims, ("neg", "quad0"), ["c", "i", "i", "S", "r"], limit=12)
        tasks += shared("values", dims, ("mono", "quad0"), ["c", "i", "I", "i", "r"], limit=12)
    for dims in ((2, 1), (6, 2), (2, 6)):
        tasks += shared("default", dims, ("mono", "quad0"), ["c", "i", "i", "i", "r"])
    # one SolverParameters object with refineSolution=True handed to both solvers (and own objects with the same values)
    for dims in ((1, 1), (2, 1)):
        tasks += shared("params", dims, ("neg", "quad0"), ["c", "i", "S", "r"], refine=True, limit=40)
        tasks += shared("own", dims, ("neg", "quad0"), ["c", "i", "S", "r"], refine=True, limit=40)
    for N in (1, 2):
        tasks += shared("problem", (N, N), ("neg", "neg"), ["c", "i", "i", "S", "r"])
    # local refinement between the global steps (writes into the best trial's value holder): own and shared Problem
    for N in (1, 2):
        tasks += shared("problem", (N, N), ("neg", "neg"), ["c", "i", "i", "L", "i", "r"])
        tasks += shared("own", (N, N), ("neg", "quad0"), ["c", "i", "i", "L", "i", "r"])
    # very different eps: each solver stops by ITS accuracy (Solve runs far beyond the step-wise part)
    for N in (1, 2):
        sp = [dict(f="neg", N=N, box="B1", r=2.5, eps=0.01, limit=120), dict(f="quad0", N=N, box="B1", r=2.5, eps=0.4, limit=120)]
        tasks += [dict(specs=sp, ops=["c", "i", "S", "r"], first=None)]
    # one of two solvers (own and shared Problem) has its evolvent re-configured with SetBounds
    for N in (1, 2):
        tasks += shared("problem", (N, N), ("neg", "neg"), ["c", "i", "B", "i", "i", "r"])
        tasks += shared("own", (N, N), ("neg", "quad0"), ["c", "i", "B", "i", "i", "r"])
    # read-only evolvent queries about the other solver's reported optimum
    for N in (1, 2):
        sp = [dict(f="neg", N=N, box="B1", r=2.0, eps=0.05, limit=8), dict(f="quad0", N=N, box="B1", r=3.0, eps=0.05, limit=8)]
        tasks += [dict(specs=sp, ops=["c", "i", "i", "P", "i", "r"], first=None)]
    # one console listener object attached to both solvers (boxes that do not contain each other's optimum)
    for N in (1, 2):
        for mode in ("result", "full"):
            sp = [dict(f="quad0", N=N, box="B0", r=2.0, eps=0.05, limit=8, share="listener", console=mode),
                  dict(f="neg", N=N, box="L:-1.0:0.25", r=3.0, eps=0.05, limit=8, share="listener", console=mode)]
            tasks += [dict(specs=sp, ops=["c", "i", "S", "r"], first=None)]
    # objectives whose intermediates overflow inside numpy, with a local refinement by one of the solvers
    for N in (1, 2):
        tasks += shared("own", (N, N), ("step", "step"), ["c", "i", "L", "i", "S"], limit=30, eps=0.01)
    # two live solvers of different dimensions, both >= 2
    for dims in ((2, 3), (3, 2), (4, 2)):
        tasks += shared("own", dims, ("mono", "quad0"), ["c", "i", "i", "S", "r"])
    # same dimension, same box, same objective - only the configured density (or r) differs
    for N in (2, 3):
        for d0, d1 in ((4, 10), (10, 4)):
            sp = [dict(f="mono", N=N, box="B1", r=2.0, eps=0.05, limit=8, density=d0),
                  dict(f="mono", N=N, box="B1", r=2.0, eps=0.05, limit=8, density=d1)]
            tasks += [dict(specs=sp, ops=["c", "i", "i", "S", "r"], first=None)]
    merges = alt = 0
    outcomes = 0
    table = fresh_solos([(sp, t["ops"]) for t in tasks for sp in t["specs"]])
    tasks = solo_crashes(tasks, table, res)
    for t in tasks:
        t["refs"] = [table[_key(sp, t["ops"])] for sp in t["specs"]]
    n_solo = len(table)
    for t, (n, a, o, viol) in zip(tasks, pmap_fresh(merge_task, tasks)):
        merges += n
        alt += a
        outcomes += o
        res.merge_violations(viol)
    btasks0 = btasks = []
    for N in (1, 2):
        for fs in (pairs[:2] if N == 1 else ctx.pick(pairs, 1)) if not th else pairs:
            # 7 switch points per body -> C(14,7) = 3432 schedules, all of them
            btasks.append(dict(specs=specs_for(N, fs), ops=["c", "i", "i", "i"], bound=None))
            btasks.append(dict(specs=specs_for(N, fs, limit=3), ops=["c", "i", "S", "r"], bound=None))
            # longer bodies (Solve runs to 8 trials): all schedules with at most 2 (3) preemptions
            btasks.append(dict(specs=specs_for(N, fs), ops=["c", "i", "i", "i", "S", "r"], bound=2 if not th else 3))
    if th:
        btasks.append(dict(specs=specs_for(1, ("quad0", "mono", "const")), ops=["c", "i", "i"], bound=4))
    import itertools
    table = fresh_solos([(sp, t["ops"]) for t in btasks0 for sp in t["specs"]])
    n_solo += len(table)
    btasks0 = solo_crashes(btasks0, table, res)
    for t in btasks0:
        t["refs"] = [table[_key(sp, t["ops"])] for sp in t["specs"]]
    btasks = []
    for t in btasks0:
        # the schedule tree is partitioned by its first three choices (each choice indexes the enabled threads: all of
        # them are enabled at the first three decisions because every body has more than three segments)
        nth = len(t["specs"])
        allroots = [list(root) for root in itertools.product(range(nth), repeat=3)]
        per = max(2, len(allroots) // 4)
        btasks += [dict(t, roots=allroots[i:i + per]) for i in range(0, len(allroots), per)]
    scheds = 0
    balt = 0
    complete = True
    for t, (n, comp, a, o, viol) in zip(btasks, pmap_fresh(baton_task, btasks)):
        scheds += n
        balt += a
        outcomes += o
        complete = complete and comp
        res.merge_violations(viol)
    # a solver copied mid-run (deepcopy / pickle): iterating the copy never changes the original
    from mc import copyrun
    ctasks = copyrun.tasks(th)
    for t, msgs in zip(ctasks, pmap(copyrun.case_c12, ctasks, chunksize=4)):
        for mm in msgs:
            res.add_violation(dict(driver="copy", task=t, message=mm, sig={}))
    res.cov = dict(
        states=merges + scheds, transitions=merges + scheds, traces_validated_against_impl=merges + scheds,
        evaluations=merges + scheds, distinct_nontrivial=alt + balt,
        rule="one execution per interleaving: all merges of the operation lists at operation granularity, and all schedules "
             "of baton-scheduled solver threads whose switch points are operation boundaries and the entry of the objective "
             "(unbounded for short bodies, preemption-bounded for 2 x 8 operations); every solver at rest and every Solution "
             "obtained earlier is compared with the solo run at the same own progress after every segment; non-trivial = "
             "interleavings in which control changed solver more than twice",
        exhaustive=complete, solo_references_in_fresh_processes=n_solo, operation_level_merges=merges, evaluation_point_schedules=scheds,
        distinct_final_outcomes=outcomes,
        samples=[dict(specs=tasks[0]["specs"], ops=tasks[0]["ops"], order=[0, 1, 1, 0, 1, 0, 0, 1, 1, 0]),
                 dict(baton=btasks[0]["ops"], bound=btasks[0]["bound"])],
    )
    res.assumptions = ["iOpt itself has no threads: switch points are placed at API-operation boundaries and objective "
                       "entry only, as the property is stated over iteration steps"]
    return res


def replay(rec):
    if rec["driver"] == "copy":
        from mc import copyrun
        return copyrun.case_c12(rec["task"])
    if rec["driver"] == "solo":
        out = fresh_solos([(rec["spec"], rec["ops"])])[_key(rec["spec"], rec["ops"])]
        return [f"solo run: {out['crash']}"] if isinstance(out, dict) else []
    if rec["driver"] == "merge":
        return replay_merge(rec)
    return replay_baton(rec)

"""C20 - the configured evolvent density is honoured.

Exhaustive over the configuration lattice evolventDensity 2..12 x N 2..5 x boxes B0..B3 x objectives,
arranged as histories (the densities in ascending and descending order inside one process, solvers solved
one after the other or constructed ahead) so that a density left over from an earlier solver shows:
every logged evaluation point must lie on the cell-centre grid of the configured density.  The test is
two-sided by arithmetic: centres of density m' are odd multiples of 2^-(m'+1), so a curve built with
any other density (finer or coarser) puts its very first point (the image of x = 0.5) off the grid."""
import numpy as np

from mc.common import Result, pmap
from mc import tree
from mc.env import box, BOXES
from mc.envs import make_env

PROPERTY = "C20"
LEVEL = "exploration"


def one(N, m, bx, env, trials, run=None, probe=False, mode="seq"):
    """one Solve with density m; returns (messages, points logged, distinct cells).
    probe: the trials are made one by one and the user asks solver.evolvent for the inverse image of an arbitrary box
    point between two iterations (a read-only query must not move the next trial off the grid)."""
    cfg = dict(N=N, box=bx, r=2.0, eps=0.0, itersLimit=trials, density=m, env=env)
    if run is None:
        run = tree.make_run(cfg, make_env(env, cfg))
    if mode == "positional":
        # the documented parameter order used positionally: SolverParameters(eps, r, itersLimit, evolventDensity)
        from iOpt.solver import Solver
        from iOpt.solver_parametrs import SolverParameters
        from mc.common import quiet
        with quiet():
            run.solver = Solver(run.problem, SolverParameters(0.0, 2.0, trials, m))
    msgs = []
    try:
        if mode == "refine":
            # step-wise: a few global iterations, a local refinement, many more global iterations
            fenv = make_env(env, cfg)
            run.step(min(10, trials))
            run.refine(12, lambda y: fenv(0, y))
            run.step(3 * trials)
        elif probe:
            lo_, up_ = box(bx, N)
            q = np.array(lo_, dtype=float) + (np.array(up_, dtype=float) - np.array(lo_, dtype=float)) * 0.3137
            for j in range(min(trials, 12)):
                run.solver.evolvent.GetInverseImage(np.array(q))
                if j == 3:
                    # a box the caller got wrong (inverted in one coordinate): a version that refuses it keeps its box; one
                    # that takes it is given the right box again - the later trials stay on the configured grid either way
                    il, iu = np.array(lo_, dtype=float), np.array(up_, dtype=float)
                    il[0], iu[0] = iu[0] + 1.0, il[0] - 1.0
                    try:
                        run.solver.evolvent.SetBounds(il, iu)
                        run.solver.evolvent.SetBounds(np.array(lo_, dtype=float), np.array(up_, dtype=float))
                    except Exception:
                        pass
                run.step(1)
                run.solver.evolvent.GetPreimages(np.array(q))
                # the same read-only question about the trial just made, asked with the array the library handed out
                run.solver.evolvent.GetPreimages(run.solver.searchData.GetLastItem().GetY().floatVariables)
                run.solver.evolvent.GetPreimages(run.solver.GetResults().bestTrials[0].point.floatVariables)
        else:
            run.solve()
    except BaseException as e:
        if not tree._horizon(run, cfg):
            return [f"N={N} evolventDensity={m} box={bx} {env}: Solve raised {type(e).__name__}: {e}"], 0, 0
        # the step-wise search ran into the resolution horizon (doubles cannot split the best interval): the trials made
        # so far are judged below
    lo, up = box(bx, N)
    lo_a = np.array(lo, dtype=float)
    w = np.array(up, dtype=float) - lo_a
    cells = set()
    for i, (y, v) in enumerate(run.problem.log):
        c = (y - lo_a) / w * 2 ** m - 0.5
        ci = np.rint(c)
        if np.abs(c - ci).max() > 1e-6 or ci.min() < 0 or ci.max() > 2 ** m - 1:
            msgs.append(f"N={N} evolventDensity={m} box={bx} {env}: trial {i + 1} at {y.tolist()} is not a cell centre of "
                        f"the 2^{m} grid: (y-lower)/(upper-lower)*2^m - 1/2 = {c.tolist()}")
            break
        cells.add(tuple(ci.tolist()))
    if not msgs:
        # the trial points as the solver keeps and reports them (the search information and the reported optimum)
        stored = [("stored trial", np.asarray(it.GetY().floatVariables, dtype=float)) for it in run.solver.searchData
                  if it.GetIndex() >= 0 and 0.0 < it.GetX() < 1.0]
        try:
            stored.append(("reported optimum", np.asarray(run.solver.GetResults().bestTrials[0].point.floatVariables, dtype=float)))
        except Exception:
            pass
        if mode != "refine":
            for what, y in stored:
                c = (y - lo_a) / w * 2 ** m - 0.5
                if np.abs(c - np.rint(c)).max() > 1e-6:
                    msgs.append(f"N={N} evolventDensity={m} box={bx} {env}: the {what} {y.tolist()} is not a cell centre of the "
                                f"2^{m} grid")
                    break
    return msgs, len(run.problem.log), len(cells)


def shared_history(task):
    """One SolverParameters object (density m) serves a loop over problems of different dimensions - as a user who sets
    the parameters once would write it; every solver must search on the density-m grid of its own box."""
    from iOpt.solver import Solver
    from iOpt.solver_parametrs import SolverParameters
    from mc.common import quiet
    from mc.env import EnvProblem
    m, dims, bx, env, trials = task["m"], task["dims"], task["box"], task["env"], task["trials"]
    params = SolverParameters(eps=0.0, r=2.0, itersLimit=trials, evolventDensity=m)
    msgs, pts, multi, done = [], 0, 0, 0
    for i, N in enumerate(dims):
        lo, up = box(bx, N) if bx in ("B0", "B1", "B3") else box("B1", N)
        cfg = dict(N=N, lower=lo, upper=up)
        p = EnvProblem(N, lo, up, make_env(env, cfg))
        try:
            with quiet():
                Solver(p, params).Solve()
        except BaseException as e:
            msgs.append(f"N={N} evolventDensity={m} {env}: Solve raised {type(e).__name__}: {e}")
            break
        done += 1
        pts += len(p.log)
        if N > 5 or N < 2:
            continue      # the statement is about N = 2..5 (for N = 1 the curve is the identity, no grid)
        lo_a = np.array(lo, dtype=float)
        w = np.array(up, dtype=float) - lo_a
        cells = set()
        for j, (y, v) in enumerate(p.log):
            c = (y - lo_a) / w * 2 ** m - 0.5
            ci = np.rint(c)
            if np.abs(c - ci).max() > 1e-6 or ci.min() < 0 or ci.max() > 2 ** m - 1:
                msgs.append(f"N={N} evolventDensity={m} box=[{lo[0]},{up[0]}]^N {env}: trial {j + 1} at {y.tolist()} is not a "
                            f"cell centre of the 2^{m} grid (history: one SolverParameters object used for problems of "
                            f"dimensions {dims[:i + 1]}; it now says evolventDensity={params.evolventDensity})")
                break
            cells.add(tuple(ci.tolist()))
        multi += len(cells) > 3
        if msgs:
            break
    return msgs, pts, multi, done


def history(task):
    """A history of solver constructions in one process: the densities of task['ms'] in that order for a fixed
    (N, box, objective).  mode 'seq': construct and solve one after the other; mode 'pair': construct each
    solver before the previous one is solved (two live solvers with different densities)."""
    N, bx, env, trials, ms, mode = task["N"], task["box"], task["env"], task["trials"], task["ms"], task.get("mode", "seq")
    msgs, pts, multi, done = [], 0, 0, 0
    mk = lambda m: tree.make_run(dict(N=N, box=bx, r=2.0, eps=0.0, itersLimit=trials, density=m, env=env),
                                 make_env(env, dict(N=N, box=bx)))
    pending = None
    seq = list(ms)
    for i, m in enumerate(seq):
        if mode == "pair":
            cur = pending if pending is not None else mk(m)
            pending = mk(seq[i + 1]) if i + 1 < len(seq) else None
            mm, n, nc = one(N, m, bx, env, trials, run=cur)
        else:
            mm, n, nc = one(N, m, bx, env, trials, probe=(mode == "probe"), mode=mode)
        pts += n
        multi += nc > 3
        done += 1
        if mm:
            msgs += [f"{x} (history: densities {seq[:i + 1]} in one process, mode {mode})" for x in mm]
            break
    return msgs, pts, multi, done


def run(ctx):
    res = Result()
    th = ctx.thorough
    tasks = []
    top = 16 if th else 12
    up_, down = list(range(2, top + 1)), list(range(top, 1, -1))
    for N in (2, 3, 4, 5):
        for bx in BOXES + ("Z", "Zh", "D", "E", "S", "F", "T", "U"):
            for env in ("lin", "abs13", "const"):
                for ms in (up_, down):
                    for mode in ("seq", "pair", "probe") + (("positional", "refine") if bx in ("B1", "D") else ()):
                        tasks.append(dict(N=N, box=bx, env=env, trials=300 if th else 30, ms=ms, mode=mode))
    # one SolverParameters object for a loop over problems of several dimensions
    stasks = []
    for m in (2, 5, 9, 10, 11, 12):
        for dims in ([7, 2, 5], [6, 3, 4, 2], [2, 5, 2], [5, 4, 3, 2], [8, 3], [1, 2, 6, 5]):
            for env in ("lin", "abs13"):
                stasks.append(dict(m=m, dims=dims, box="B1", env=env, trials=60 if th else 20, shared=True))
    tasks_h = list(tasks)
    out = pmap(history, tasks_h, chunksize=2) + pmap(shared_history, stasks, chunksize=2)
    tasks = tasks_h + stasks
    pts = multi = solves = 0
    for t, (msgs, n, mu, done) in zip(tasks, out):
        pts += n
        multi += mu
        solves += done
        for msg in msgs:
            res.add_violation(dict(driver="shared" if t.get("shared") else "history", **t, message=msg, sig={}))
    # a solver with a non-default density copied mid-run (deepcopy / pickle): copy and original stay on their grid
    from mc import copyrun
    ctasks = [dict(t, density=m) for t in copyrun.tasks(th) if t["N"] >= 2 and t["k"] in (2, 12) for m in (3, 7, 12)]
    for t, msgs in zip(ctasks, pmap(copyrun.case_c20, ctasks, chunksize=4)):
        solves += 2
        for mm in msgs:
            res.add_violation(dict(driver="copy", task=t, message=mm, sig={}))
    res.cov = dict(
        evaluations=solves, distinct_nontrivial=multi,
        rule="histories = for every (N in 2..5, box, objective) the densities 2..12 (thorough 2..16) ascending and descending, solved one after "
             "the other in one process and with the next solver constructed before the previous one is solved; every "
             "logged evaluation point is tested for membership in the density-m centre grid of its own solver; "
             "non-trivial = solves whose trials visited more than 3 distinct cells",
        exhaustive=True, points_checked=pts, configurations=solves, histories=len(tasks),
        states=solves, transitions=pts, traces_validated_against_impl=len(tasks),
        samples=tasks[:1] + tasks[-1:],
    )
    res.assumptions = ["grid membership judged to 1e-6 of a cell (box transform rounding)"]
    return res


def replay(rec):
    if rec.get("driver") == "copy":
        from mc import copyrun
        return copyrun.case_c20(rec["task"])
    if rec.get("shared"):
        return shared_history(rec)[0]
    if "ms" in rec:
        return history(rec)[0]
    return one(rec["N"], rec["m"], rec["box"], rec["env"], rec["trials"])[0]

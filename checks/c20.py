"""C20 - the configured evolvent density is honoured.

Exhaustive over the configuration lattice evolventDensity 2..12 x N 2..5 x boxes B0..B3 x objectives:
every logged evaluation point must lie on the cell-centre grid of the configured density.  The test is
two-sided by arithmetic: centres of density m' are odd multiples of 2^-(m'+1), so a curve built with
any other density (finer or coarser) puts its very first point (the image of x = 0.5) off the grid."""
import numpy as np

from mc.common import Result, pmap
from mc import tree
from mc.env import box, BOXES
from mc.envs import make_env

PROPERTY = "C20"
LEVEL = "exploration"


def case(task):
    N, m, bx, env, trials = task["N"], task["m"], task["box"], task["env"], task["trials"]
    cfg = dict(N=N, box=bx, r=2.0, eps=0.0, itersLimit=trials, density=m, env=env)
    f = make_env(env, cfg)
    run = tree.make_run(cfg, f)
    msgs = []
    try:
        run.solve()
    except BaseException as e:
        return [f"Solve raised {type(e).__name__}: {e}"], 0, 0
    lo, up = box(bx, N)
    lo_a = np.array(lo)
    w = np.array(up) - lo_a
    cells = set()
    for i, (y, v) in enumerate(run.problem.log):
        c = (y - lo_a) / w * 2 ** m - 0.5
        ci = np.rint(c)
        if np.abs(c - ci).max() > 1e-6 or ci.min() < 0 or ci.max() > 2 ** m - 1:
            msgs.append(f"N={N} evolventDensity={m} box={bx} {env}: trial {i + 1} at {y.tolist()} is not a cell centre of "
                        f"the 2^{m} grid: (y-lower)/(upper-lower)*2^m - 1/2 = {c.tolist()}")
            break
        cells.add(tuple(ci.tolist()))
    return msgs, len(run.problem.log), len(cells)


def run(ctx):
    res = Result()
    th = ctx.thorough
    tasks = []
    for N in (2, 3, 4, 5):
        for m in range(2, 13):
            for bx in BOXES:
                for env in ("lin", "abs13", "const"):
                    tasks.append(dict(N=N, m=m, box=bx, env=env, trials=200 if th else 30))
    out = pmap(case, tasks, chunksize=8)
    pts = 0
    multi = 0
    for t, (msgs, n, ncell) in zip(tasks, out):
        pts += n
        multi += ncell > 3
        for msg in msgs:
            res.add_violation(dict(driver="lattice", **t, message=msg, sig={}))
    res.cov = dict(
        evaluations=len(tasks), distinct_nontrivial=multi,
        rule="one Solve per (N in 2..5, evolventDensity in 2..12, box, objective) with every logged evaluation point tested "
             "for membership in the density-m centre grid; non-trivial = configurations whose trials visited more than 3 "
             "distinct cells",
        exhaustive=True, points_checked=pts, configurations=len(tasks),
        states=len(tasks), transitions=pts, traces_validated_against_impl=len(tasks),
        samples=tasks[:1] + tasks[-1:],
    )
    res.assumptions = ["grid membership judged to 1e-6 of a cell (box transform rounding)"]
    return res


def replay(rec):
    return case(rec)[0]

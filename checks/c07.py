"""C07 - the evolvent visits every grid cell of the box exactly once.

(1) all cells for every (N, m) with N*m <= bound on four boxes: three points of every subinterval
    map to the same cell centre, the map subinterval -> cell is a bijection, x=1 is in the last cell;
(2) orientation automaton extracted through GetImage and closed: every state's child map is a
    bijection => bijection at every depth; congruence replay on all short prefixes;
(3) deep replay of automaton traces at the full density for every (N, m) with N*m <= 50, and the
    end zone next to x=0, x=1/2 and x=1."""
import math

import numpy as np

from mc.common import Result, pmap
from mc import curve
from mc.env import box, BOXES
from iOpt.evolvent.evolvent import Evolvent

PROPERTY = "C07"
LEVEL = "model_checking"


def cells_chunk(task):
    N, m, bx, a, b = task["N"], task["m"], task["box"], task["a"], task["b"]
    lo, up = box(bx, N)
    ev = curve.make_ev(N, m, bx, task.get("via"))
    if task.get("via"):
        bx = f"{bx} (set with SetBounds on an evolvent built for {task['via']})"
    n = 2 ** (N * m)
    lo_a, up_a = np.array(lo, dtype=float), np.array(up, dtype=float)
    side = up_a - lo_a
    msgs = []
    flat = []
    for i in range(a, b):
        xs = (i / n, (i + 0.3) / n, math.nextafter((i + 1) / n, 0.0))
        ys = [ev.GetImage(x) for x in xs]
        c = curve.cell_index(ys[0], lo, up, m)
        if c is None:
            msgs.append(f"N={N} m={m} box={bx}: image {ys[0].tolist()} of x={xs[0]!r} is not the centre of a grid cell")
            flat.append(-1)
            continue
        for x, y in zip(xs[1:], ys[1:]):
            if not np.array_equal(y, ys[0]):
                msgs.append(f"N={N} m={m} box={bx}: x={x!r} and x={xs[0]!r} lie in subinterval {i} but map to different "
                            f"points {y.tolist()} / {ys[0].tolist()}")
        if np.any(ys[0] < lo_a - 1e-9 * side) or np.any(ys[0] > up_a + 1e-9 * side) or min(c) < 0 or max(c) >= 2 ** m:
            msgs.append(f"N={N} m={m} box={bx}: image {ys[0].tolist()} of subinterval {i} lies outside the box")
        f = 0
        for v in c:
            f = f * 2 ** m + v
        flat.append(f)
        if len(msgs) > 10:
            break
    if a == 0 and b == n and n <= 2 ** 10 and len(msgs) == 0:
        msgs += curve.query_mix(ev, N, m, lo, up, f"N={N} m={m} box={bx}")
    last = None
    if b == n:
        y1 = ev.GetImage(1.0)
        last = curve.cell_index(y1, lo, up, m)
        if last is not None:
            f = 0
            for v in last:
                f = f * 2 ** m + v
            last = f
    return flat, msgs, last


def congruence_task(task):
    """every prefix of length k in the slice: the observed table equals the automaton's prediction"""
    N, k, first = task["N"], task["k"], task["first"]
    A = task["A"]
    import itertools
    msgs = []
    n = 0
    for tail in itertools.product(range(2 ** N), repeat=max(0, k - len(first))):
        p = list(first) + list(tail)
        Y, s = A.run(p)
        try:
            t = curve.table(N, p)
        except curve.ObservationError as e:
            msgs.append(str(e))
            continue
        n += 1
        if t != A.offs[s]:
            msgs.append(f"N={N}: prefix {p} behaves differently from orientation state {s} reached by the automaton "
                        f"(witness {A.witness[s]}): the descent is not the extracted finite-state machine")
        if len(msgs) > 5:
            break
    return n, msgs


def deep_traces(A, N, m, pads=(0, 1, 2)):
    """one trace per (level, state reachable at that level, digit): path + digit + padding to depth m"""
    B = 2 ** N
    levels = curve.paths_by_level(A, m - 1)
    for j, states in enumerate(levels):
        for s, path in states.items():
            for d in range(B):
                rest = m - j - 1
                for pad in pads:
                    if pad == 0:
                        tail = [0] * rest
                    elif pad == 1:
                        tail = [B - 1] * rest
                    else:
                        tail = [(B - 1) if (t % 2 == 0) else 0 for t in range(rest)]
                    yield path + [d] + tail
                    if rest == 0:
                        break


def expected_centre(A, digits):
    Y, s = A.run(digits)
    return np.array([v / 2.0 ** (len(digits) + 1) for v in Y])


def deep_task(task):
    N, m, A = task["N"], task["m"], task["A"]
    ev = curve.unit_ev(N, m)
    n = 2 ** (N * m)
    msgs = []
    cnt = 0
    seen = set()
    for digs in deep_traces(A, N, m, pads=task["pads"]):
        key = tuple(digs)
        if key in seen:
            continue
        seen.add(key)
        x, w = curve.x_of_prefix(N, digs)
        y = ev.GetImage(x + w / 2)
        e = expected_centre(A, digs)
        cnt += 1
        if not np.array_equal(y, e):
            msgs.append(f"N={N} m={m}: centre of subinterval with digits {digs} maps to {y.tolist()}, the orientation "
                        f"automaton gives {e.tolist()}")
            if len(msgs) > 5:
                break
    # end zone
    idx = sorted({i for i in (0, 1, 2, n // 2 - 1, n // 2, n - 3, n - 2, n - 1) if 0 <= i < n})
    for i in idx:
        digs = curve.digits_of(N, m, i)
        e = expected_centre(A, digs)
        lo_x = i / n
        hi_x = (i + 1) / n
        for x in (lo_x, math.nextafter(lo_x, 2.0), lo_x + 0.5 / n, math.nextafter(hi_x, 0.0)):
            if not (lo_x <= x < hi_x):
                continue
            y = ev.GetImage(x)
            cnt += 1
            if not np.array_equal(y, e):
                msgs.append(f"N={N} m={m}: x={x!r} lies in subinterval {i} of {n} whose cell centre is {e.tolist()}, "
                            f"but maps to {y.tolist()}")
    y1 = ev.GetImage(1.0)
    e = expected_centre(A, curve.digits_of(N, m, n - 1))
    cnt += 1
    if not np.array_equal(y1, e):
        msgs.append(f"N={N} m={m}: x=1 maps to {y1.tolist()}, the last cell is {e.tolist()}")
    return cnt, msgs[:8]


def n1_task(bx):
    from mc.env import n1_bounds
    lo, up, lo_arr, up_arr = n1_bounds(bx)
    ev = Evolvent(lo_arr, up_arr, 1, 10)
    msgs = []
    prev = None
    K = 1 << 10
    for i in range(K + 1):
        x = i / K
        if i % 64 == 1:
            # in between: inverse queries with an integer-typed argument, and the caller re-using the arrays it passed
            # as bounds - neither may change what the object answers next
            ev.GetPreimages([int(math.floor(lo[0])) + 1])
            ev.GetInverseImage(np.array([int(math.floor(lo[0])) + 1]))
            if isinstance(lo_arr, np.ndarray):
                lo_arr[...] = lo_arr + 3
                up_arr[...] = up_arr - 5
            else:
                lo_arr[0] += 3
                up_arr[0] -= 5
        arr = ev.GetImage(x)
        y = float(arr[0])
        if i in (0, 1, K // 2, K) and arr.flags.writeable:
            arr[...] = 777.0       # the caller uses the array it got back as scratch space
        e = lo[0] + x * (up[0] - lo[0])
        tol = 4 * math.ulp(max(abs(lo[0]), abs(up[0])))
        if abs(y - e) > tol:
            msgs.append(f"N=1 box={bx}: image of x={x!r} is {y!r}, affine map gives {e!r}")
        if not (lo[0] - tol <= y <= up[0] + tol):
            msgs.append(f"N=1 box={bx}: image {y!r} of x={x!r} outside [{lo[0]}, {up[0]}]")
        if prev is not None and not (y > prev):
            msgs.append(f"N=1 box={bx}: image not increasing at x={x!r}")
        prev = y
    return K + 1, msgs[:5]


def automata(ctx, Ns):
    out = {}
    for N, A in zip(Ns, pmap(_extract, [(N, 2 if N <= (4 if ctx.thorough else 3) else 1) for N in Ns])):
        out[N] = A
    return out


def _extract(a):
    N, lv = a
    try:
        return curve.extract(N, lv)
    except curve.ObservationError as e:
        return str(e)


def run(ctx):
    res = Result()
    th = ctx.thorough
    bound = 20 if th else 14
    # (1) all cells
    tasks = []
    for (N, m) in curve.small_configs(bound):
        n = 2 ** (N * m)
        for bx in BOXES:
            if n > 2 ** 16 and bx not in ("B0", "B2"):
                continue
            step = max(256, n // 32)
            for a in range(0, n, step):
                tasks.append(dict(N=N, m=m, box=bx, a=a, b=min(n, a + step)))
    # a unit box at 1e10 and integer-typed bounds (Python ints with an odd sum), small configurations
    for (N, m) in [c for c in curve.small_configs(8 if not th else 10)]:
        for bx in ("B4", "Z", "Zh", "E", "D", "S", "F", "T", "U"):
            tasks.append(dict(N=N, m=m, box=bx, a=0, b=2 ** (N * m)))
    # the same exhaustive cell enumeration with the box configured through SetBounds (every ordered pair of boxes)
    for (N, m) in [c for c in curve.small_configs(8 if not th else 10)]:
        n = 2 ** (N * m)
        for via, bx in curve.VIA_PAIRS:
            tasks.append(dict(N=N, m=m, box=bx, via=via, a=0, b=n))
    tasks.sort(key=lambda t: -(t["b"] - t["a"]) * t["m"])
    out = pmap(cells_chunk, tasks)
    groups = {}
    ncells = 0
    for t, (flat, msgs, last) in zip(tasks, out):
        g = groups.setdefault((t["N"], t["m"], t["box"] + ("<-" + t["via"] if t.get("via") else "")),
                              dict(flat=[], last=None, lastcell=None))
        g["flat"] += flat
        ncells += len(flat)
        if last is not None:
            g["last"] = last
        if t["b"] == 2 ** (t["N"] * t["m"]) and flat:
            g["lastcell"] = flat[-1]
        for msg in msgs:
            res.add_violation(dict(driver="cells", N=t["N"], m=t["m"], box=t["box"], via=t.get("via"), a=t["a"], b=t["b"],
                                   message=msg, sig={}))
    for (N, m, bxv), g in groups.items():
        bx, _, via = bxv.partition("<-")
        via = via or None
        n = 2 ** (N * m)
        fl = [f for f in g["flat"] if f >= 0]
        if len(set(fl)) != len(fl):
            seen, dup = set(), None
            for f in fl:
                if f in seen:
                    dup = f
                    break
                seen.add(f)
            res.add_violation(dict(driver="bijection", N=N, m=m, box=bx, via=via,
                                   message=f"N={N} m={m} box={bxv}: two subintervals map to the same cell (flat index {dup})", sig={}))
        elif len(fl) == n and set(fl) != set(range(n)):
            res.add_violation(dict(driver="bijection", N=N, m=m, box=bx, via=via,
                                   message=f"N={N} m={m} box={bxv}: not every grid cell is reached", sig={}))
        if g["last"] is None or g["last"] != g["lastcell"]:
            res.add_violation(dict(driver="bijection", N=N, m=m, box=bx, via=via,
                                   message=f"N={N} m={m} box={bxv}: x=1 does not map to the cell of the last subinterval", sig={}))
    # N = 1
    n1 = 0
    from mc.env import N1_EXTRA
    for bx, (k, msgs) in zip(BOXES + N1_EXTRA, pmap(n1_task, list(BOXES + N1_EXTRA))):
        n1 += k
        for msg in msgs:
            res.add_violation(dict(driver="n1", box=bx, message=msg, sig={}))
    # (2) automaton
    Ns = (2, 3, 4, 5) if th else (2, 3, 4)
    auts = automata(ctx, Ns)
    nstates = ntrans = 0
    cong = 0
    deep = 0
    for N in Ns:
        A = auts[N]
        if isinstance(A, str):
            res.add_violation(dict(driver="automaton", N=N, message=A, sig={}))
            continue
        nstates += A.nstates()
        ntrans += len(A.trans)
        for msg in curve.check_child_bijection(A):
            res.add_violation(dict(driver="automaton", N=N, message=msg, sig={}))
    # congruence replay
    L = {2: 6, 3: 4, 4: 3, 5: 2} if th else {2: 5, 3: 3, 4: 2, 5: 2}
    ctasks = []
    for N in Ns:
        A = auts[N]
        if isinstance(A, str):
            continue
        for k in range(0, L[N] + 1):
            if k == 0:
                ctasks.append(dict(N=N, k=0, first=[], A=A))
            else:
                for d in range(2 ** N):
                    ctasks.append(dict(N=N, k=k, first=[d], A=A))
    for t, (n, msgs) in zip(ctasks, pmap(congruence_task, ctasks)):
        cong += n
        for msg in msgs:
            res.add_violation(dict(driver="congruence", N=t["N"], k=t["k"], first=t["first"], message=msg, sig={}))
    # (3) deep replay
    dtasks = []
    for (N, m) in curve.deep_configs(50):
        if N not in auts or isinstance(auts[N], str):
            continue
        pads = (0, 1, 2) if th else ((m + ctx.seed) % 3,)
        dtasks.append(dict(N=N, m=m, A=auts[N], pads=pads))
    dtasks.sort(key=lambda t: -t["m"] * t["m"] * 2 ** t["N"] * t["A"].nstates())
    for t, (n, msgs) in zip(dtasks, pmap(deep_task, dtasks)):
        deep += n
        for msg in msgs:
            res.add_violation(dict(driver="deep", N=t["N"], m=t["m"], pads=list(t["pads"]), message=msg, sig={}))
    res.cov = dict(
        states=nstates, transitions=ntrans, traces_validated_against_impl=cong + deep,
        evaluations=ncells + n1 + cong + deep, distinct_nontrivial=ncells,
        rule="all-cells part: every subinterval of every (N, m) with N*m <= bound on the boxes (3 points each; distinct "
             "non-trivial = subintervals enumerated); automaton: states/transitions of the orientation machine extracted "
             "through GetImage for each N; traces = congruence replays (all prefixes up to L) + deep replays at full "
             "density + end-zone points",
        exhaustive=True, all_cells_bound=bound, cells=ncells, automaton_states={str(N): (A if isinstance(A, str) else A.nstates())
                                                                                 for N, A in auts.items()},
        congruence_prefixes=cong, congruence_depth={str(k): v for k, v in L.items() if k in Ns},
        deep_replays=deep, deep_configs=len(dtasks),
        samples=[dict(N=2, m=3, subinterval=5, points=["5/64", "5.3/64", "6/64-ulp"]),
                 dict(N=dtasks[0]["N"], m=dtasks[0]["m"], trace="path to (level, state) + digit + padding")],
    )
    res.assumptions = ["finite-stateness of the descent is checked by congruence replay up to depth L and by deep replay "
                       "of one trace per (level, reachable state, digit), not proved for arbitrary code"]
    return res


def replay(rec):
    d = rec["driver"]
    if d == "cells":
        return cells_chunk(rec)[1]
    if d == "bijection":
        N, m, bx = rec["N"], rec["m"], rec["box"]
        n = 2 ** (N * m)
        flat, msgs, last = cells_chunk(dict(N=N, m=m, box=bx, via=rec.get("via"), a=0, b=n))
        out = list(msgs)
        if len(set(flat)) != n:
            out.append("map subinterval -> cell is not a bijection")
        if last != flat[-1]:
            out.append("x=1 does not map to the last cell")
        return out
    if d == "n1":
        return n1_task(rec["box"])[1]
    N = rec["N"]
    A = _extract((N, 1))
    if isinstance(A, str):
        return [A]
    if d == "automaton":
        return curve.check_child_bijection(A)
    if d == "congruence":
        return congruence_task(dict(N=N, k=rec["k"], first=rec["first"], A=A))[1]
    if d == "deep":
        return deep_task(dict(N=N, m=rec["m"], A=A, pads=tuple(rec["pads"])))[1]
    return []

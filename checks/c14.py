"""C14 - GKLS functions have the promised structure and are reproducible.

Exhaustive over the 400 (dimension, number) pairs and a finite lattice of structurally chosen points:
minimiser tables (inside the box, non-overlapping balls, class distance / radius, values), exact value at
every minimiser, paraboloid identity outside the balls, continuity across every ball boundary along a
set of directions and scales, basin covers on the polar lattice, and reproducibility against the
recorded reference values, the suite's literal and the Knuth generator's self-test."""
import itertools
import json
import os

import numpy as np

from mc.common import Result, pmap, VERIF
from mc import gkls

PROPERTY = "C14"
LEVEL = "exploration"

GOLD = os.path.join(VERIF, "golden", "gkls.json")


def probe_points(S):
    n = S.n
    x1 = np.full(n, 0.3)
    x2 = np.array([(-0.55, 0.45, -0.35, 0.25, -0.15)[i] for i in range(n)])
    e = np.zeros(n)
    e[0] = 1.0
    x3 = S.M[2] + 0.5 * S.rho[2] * e
    x4 = S.M[1] - 0.25 * S.rho[1] * np.ones(n) / np.sqrt(n)
    return [x1, x2, x3, x4]


def golden_record(n, k):
    S = gkls.Structure(n, k)
    return dict(M=S.M.tolist(), rho=S.rho.tolist(), f=S.f.tolist(),
                values=[gkls.value(S.wide(), x) for x in probe_points(S)])


def directions(S, i, deep=False):
    n = S.n
    out = []
    for ax in range(n):
        for sg in (-1.0, 1.0):
            e = np.zeros(n)
            e[ax] = sg
            out.append(e)
    d = S.T - S.M[i]
    d = d / np.linalg.norm(d)
    out += [d, -d]
    for sg in itertools.islice(itertools.product((-1.0, 1.0), repeat=n), 0, 8 if not deep else 2 ** n):
        v = np.array(sg)
        out.append(v / np.linalg.norm(v))
    if deep:
        # towards the other minimisers, and skewed combinations of two axes
        for j in range(10):
            if j != i:
                v = S.M[j] - S.M[i]
                out.append(v / np.linalg.norm(v))
        for a in range(n):
            for b in range(n):
                if a != b:
                    v = np.zeros(n)
                    v[a], v[b] = 1.0, -0.37
                    out.append(v / np.linalg.norm(v))
    return out


def structure_case(task):
    n, k = task["n"], task["k"]
    msgs = []
    ev = 0
    try:
        S = gkls.Structure(n, k)
    except Exception as e:
        return [f"GKLS({n},{k}): construction failed: {type(e).__name__}: {e}"], 0, {}
    fn = S.p.function
    tag = f"GKLS({n},{k})"
    # "function (n, k) is always the same function": constructed again and again in this process (with a different
    # member in between) the tables must be bit-identical to the first construction
    # the same member asked for with numpy integers (an element of np.arange, a 0-d array): the same function
    for spelled, how in ((np.int64(k), "np.int64"), (np.int32(k), "np.int32")):
        try:
            from iOpt.problems.GKLS import GKLS as _G
            g2 = _G(np.int64(n) if how == "np.int64" else n, spelled)
            mm = g2.function.GKLS_minima
            if not (np.array_equal(np.array(mm.local_min, dtype=float), S.M) and np.array_equal(np.array(mm.f, dtype=float), S.f)):
                msgs.append(f"{tag}: GKLS({n}, {how}({k})) does not have the tables of GKLS({n},{k})")
            else:
                v1, v2 = gkls.value(g2, S.M[3] * 0.5 + 0.1), gkls.value(S.p, S.M[3] * 0.5 + 0.1)
                if v1 != v2:
                    msgs.append(f"{tag}: GKLS({n}, {how}({k})) evaluates to {v1!r} where GKLS({n},{k}) gives {v2!r}")
        except Exception as e:
            msgs.append(f"{tag}: GKLS({n}, {how}({k})) raised {type(e).__name__}: {e}")
    for rep in range(2, 6):
        if rep == 4:
            other = gkls.make(n, k % 100 + 1)
            # the generator object of ANOTHER member re-targeted to this one must become exactly this function
            gen = getattr(other, "function", None)
            if gen is not None and hasattr(gen, "SetFunctionNumber"):
                try:
                    gen.SetFunctionNumber(k)
                    mm = gen.GKLS_minima
                    same = (np.array_equal(np.array(mm.local_min, dtype=float), S.M)
                            and np.array_equal(np.array(mm.rho, dtype=float), S.rho)
                            and np.array_equal(np.array(mm.f, dtype=float), S.f))
                    if not same:
                        msgs.append(f"{tag}: the generator of GKLS({n},{k % 100 + 1}) re-targeted with SetFunctionNumber({k}) does "
                                    f"not reproduce the tables of a freshly built GKLS({n},{k})")
                    # the same generator switched to the other class and asked for the same number must become the
                    # function a freshly configured generator of that class produces (not stay what it was)
                    if k % 10 == 1 and hasattr(gen, "SetFunctionClass"):
                        from iOpt.problems.GKLS_function.gkls_function import GKLSFunction, GKLSClass
                        gen.SetFunctionClass(GKLSClass.Hard, n)
                        gen.SetFunctionNumber(k)
                        g2 = GKLSFunction()
                        g2.SetDimension(n)
                        g2.SetFunctionClass(GKLSClass.Hard, n)
                        g2.SetFunctionNumber(k)
                        a, b = gen.GKLS_minima, g2.GKLS_minima
                        if not (np.array_equal(np.array(a.local_min, dtype=float), np.array(b.local_min, dtype=float))
                                and np.array_equal(np.array(a.rho, dtype=float), np.array(b.rho, dtype=float))
                                and np.array_equal(np.array(a.f, dtype=float), np.array(b.f, dtype=float))):
                            msgs.append(f"{tag}: a generator switched to class Hard and asked for number {k} again differs "
                                        f"from a freshly configured Hard generator of the same (dimension, number)")
                except Exception as e:
                    msgs.append(f"{tag}: SetFunctionNumber({k}) on the generator of GKLS({n},{k % 100 + 1}) raised "
                                f"{type(e).__name__}: {e}")
        S2 = gkls.Structure(n, k)
        if not (np.array_equal(S2.M, S.M) and np.array_equal(S2.rho, S.rho) and np.array_equal(S2.f, S.f)):
            msgs.append(f"{tag}: construction number {rep} in this process gives different minimisers / radii / values than "
                        f"the first (e.g. global minimiser {S2.M[1].tolist()} instead of {S.M[1].tolist()})")
            break
    if S.M.shape != (10, n) or len(S.rho) != 10 or len(S.f) != 10:
        return [f"{tag}: expected 10 minimisers, tables have shapes {S.M.shape}, {len(S.rho)}, {len(S.f)}"], 0, {}
    if not (np.all(S.M >= -1.0) and np.all(S.M <= 1.0)):
        msgs.append(f"{tag}: a minimiser lies outside [-1,1]^n: min {S.M.min()!r}, max {S.M.max()!r}")
    minsep = np.inf
    for i, j in itertools.combinations(range(10), 2):
        sep = float(np.linalg.norm(S.M[i] - S.M[j]) - S.rho[i] - S.rho[j])
        minsep = min(minsep, sep)
        if sep < -1e-9:
            msgs.append(f"{tag}: attraction balls {i} and {j} overlap by {-sep!r}")
    d = float(np.linalg.norm(S.M[1] - S.M[0]))
    if abs(d - fn.GKLS_global_dist) > 1e-9 or abs(d - S.p.global_dist) > 1e-9:
        msgs.append(f"{tag}: global minimiser at distance {d!r} from the vertex, class distance {fn.GKLS_global_dist!r}")
    if abs(S.rho[1] - fn.GKLS_global_radius) > 1e-12:
        msgs.append(f"{tag}: radius of the global attraction ball {S.rho[1]!r}, class radius {fn.GKLS_global_radius!r}")
    if S.f[1] != -1.0 or S.f[0] != 0.0:
        msgs.append(f"{tag}: prescribed values f_1={S.f[1]!r}, f_0={S.f[0]!r} (expected -1, 0)")
    gap = min(S.f[i] for i in range(10) if i != 1) - S.f[1]
    if not gap > 0:
        msgs.append(f"{tag}: a local minimum is not strictly higher than the global one (gap {gap!r})")
    opt = np.array(S.p.knownOptimum[0].point.floatVariables, dtype=float)
    if not np.array_equal(opt, S.M[1]) or S.p.knownOptimum[0].functionValues[0].value != -1.0:
        msgs.append(f"{tag}: knownOptimum {opt.tolist()} / {S.p.knownOptimum[0].functionValues[0].value!r} is not minimiser 1 / -1")
    for i in range(10):
        v = gkls.value(S.p, S.M[i])
        ev += 1
        if v != S.f[i]:
            msgs.append(f"{tag}: value at minimiser {i} is {v!r}, prescribed {S.f[i]!r}")
    # paraboloid identity on the lattice outside all balls
    for x in gkls.lattice_points(n, (-1.0, -0.5, 0.0, 0.5, 1.0) if n <= 4 else (-1.0, 0.0, 1.0)):
        if S.in_ball(x) == 0:
            v = gkls.value(S.p, x)
            ev += 1
            e = float(np.sum((x - S.T) ** 2) + S.f[0])
            if abs(v - e) > 1e-12 * max(1.0, abs(e)):
                msgs.append(f"{tag}: outside all balls at {x.tolist()} value {v!r}, paraboloid {e!r}")
                break
    # a point of the box is the same point whether its (integer) coordinates arrive as floats or as integers
    for x in gkls.lattice_points(n, (-1.0, 0.0, 1.0)):
        xi = np.array([int(v) for v in x], dtype=np.int64)
        try:
            from iOpt.trial import Point, FunctionValue
            vi = float(S.p.Calculate(Point(xi, []), FunctionValue()).value)
        except Exception as e:
            msgs.append(f"{tag}: Calculate at the integer-typed point {xi.tolist()} raised {type(e).__name__}: {e}")
            break
        vf = gkls.value(S.p, np.array(x, dtype=float))
        ev += 2
        if vi != vf:
            msgs.append(f"{tag}: value at {xi.tolist()} is {vi!r} for an integer-typed point and {vf!r} for the same point as floats")
            break
    # continuity across every ball boundary (value on both sides, several scales); evaluated on the widened twin so
    # that boundary points outside the box are covered too, and on the original where inside
    w = S.wide()
    maxdisc = 0.0
    for i in range(1, 10):
        for u in directions(S, i, deep=task.get("deep", False)):
            # the centre of the ball first, on the same instances: continuity may not depend on what was evaluated before
            for inst in (w, S.p):
                c = gkls.value(inst, S.M[i])
                ev += 1
                if c != S.f[i]:
                    msgs.append(f"{tag}: value at minimiser {i} is {c!r} on re-evaluation, prescribed {S.f[i]!r}")
            # slope bound across the boundary: paraboloid gradient + cubic gradient, both <= 2*(|x-T|) + ... use C = 50
            for delta in ((1e-3, 1e-5, 1e-7, 1e-9) if not task.get("deep") else (1e-2, 1e-3, 1e-4, 1e-5, 1e-6, 1e-7, 1e-9, 1e-11)):
                pin = S.M[i] + u * S.rho[i] * (1 - delta)
                pout = S.M[i] + u * S.rho[i] * (1 + delta)
                if S.in_ball(pout) != 0:
                    continue
                a, b = gkls.value(w, pin), gkls.value(w, pout)
                ev += 2
                disc = abs(a - b)
                C = 8.0 * (np.linalg.norm(pout - S.T) + 1.0)
                if disc > C * S.rho[i] * delta + 1e-12:
                    msgs.append(f"{tag}: jump {disc!r} across the boundary of ball {i} in direction {u.tolist()} at scale "
                                f"{delta} (inside {a!r}, outside {b!r})")
                    break
                if delta <= 1e-7:
                    maxdisc = max(maxdisc, disc)
                if np.all(np.abs(pin) <= 1.0):
                    a0 = gkls.value(S.p, pin)
                    ev += 1
                    if a0 != a:
                        msgs.append(f"{tag}: value at {pin.tolist()} differs between two instances of the same function")
    # basins: minimum at the centre (polar-lattice cover), cubic structure
    cells = 0
    for i in range(1, 10):
        r = gkls.basin_cover(S, i, nplanes=task.get("planes", 2))
        ev += r["evals"]
        cells += r["cells"]
        msgs += r["messages"]
        m2, e2 = gkls.bilinear_lattice(S, i, nplanes=2)
        ev += e2
        msgs += m2
    # reproducibility: recorded reference values
    gold = task.get("gold")
    if gold is not None:
        for name, cur in (("minimisers", S.M), ("radii", S.rho), ("values", S.f)):
            ref = np.array(gold[{"minimisers": "M", "radii": "rho", "values": "f"}[name]])
            if ref.shape != np.shape(cur) or np.max(np.abs(ref - cur)) > 1e-9:
                msgs.append(f"{tag}: generated {name} differ from the recorded reference (max difference "
                            f"{float(np.max(np.abs(ref - cur))) if ref.shape == np.shape(cur) else 'shape'})")
        pts = [np.array(x) for x in gold.get("points", [])] or None
        Sg = S
        # probe points are derived from the recorded tables so that they do not move with a changed generator
        Sref = type("R", (), dict(n=n, M=np.array(gold["M"]), rho=np.array(gold["rho"])))()
        for x, rv in zip(probe_points(Sref), gold["values"]):
            v = gkls.value(w, x)
            ev += 1
            if abs(v - rv) > 1e-9 * max(1.0, abs(rv)):
                msgs.append(f"{tag}: value at {x.tolist()} is {v!r}, recorded reference {rv!r}")
    return msgs, ev, dict(minsep=minsep, gap=gap, maxdisc=maxdisc, cells=cells)


def generator_selftest():
    """Knuth's ranf_array self-test as ported (seed 310952, 2009 refills of 1009 numbers)"""
    from iOpt.problems.GKLS_function.gkls_random import GKLSRandomGenerator as G
    g = G()
    rn = np.zeros(G.NUM_RND)
    ru = np.zeros(G.KK)
    g.Initialize(310952, rn, ru)
    for _ in range(2009):
        g.GenerateNextNumbers()
    got = float(ru[0])
    return got


def twice_case(task):
    """constructing (n,k) twice - and after constructing / evaluating other functions - gives identical tables"""
    n, k = task["n"], task["k"]
    a = gkls.Structure(n, k)
    other = gkls.Structure(2 + (n - 1) % 4, 1 + k % 100)
    for x in gkls.lattice_points(other.n, (-0.5, 0.5)):
        gkls.value(other.p, x)
    b = gkls.Structure(n, k)
    msgs = []
    if not (np.array_equal(a.M, b.M) and np.array_equal(a.rho, b.rho) and np.array_equal(a.f, b.f)):
        msgs.append(f"GKLS({n},{k}): two constructions give different tables")
    x = np.full(n, 0.123)
    if gkls.value(a.p, x) != gkls.value(b.p, x):
        msgs.append(f"GKLS({n},{k}): two instances disagree at {x.tolist()}")
    return msgs


def run(ctx):
    res = Result()
    th = ctx.thorough
    gold = json.load(open(GOLD)) if os.path.exists(GOLD) else {}
    tasks = [dict(n=n, k=k, gold=gold.get(f"{n},{k}"), planes=3 if th and n > 2 else 2, deep=th)
             for n in (2, 3, 4, 5) for k in range(1, 101)]
    out = pmap(structure_case, tasks, chunksize=4)
    ev = 0
    minsep, mingap, maxdisc, cells = np.inf, np.inf, 0.0, 0
    for t, (msgs, e, st) in zip(tasks, out):
        ev += e
        if st:
            minsep = min(minsep, st["minsep"])
            mingap = min(mingap, st["gap"])
            maxdisc = max(maxdisc, st["maxdisc"])
            cells += st["cells"]
        for m in msgs:
            res.add_violation(dict(driver="structure", n=t["n"], k=t["k"], message=m, sig={}))
    if not gold:
        res.add_violation(dict(driver="golden", message="golden/gkls.json is missing", sig={}))
    # suite literal
    from iOpt.problems.GKLS import GKLS
    for mm_ in optimized_interpreter():
        res.add_violation(dict(driver="optimized", message=mm_, sig={}))
    v = gkls.value(GKLS(3), [0.9, 0.5, 0.3])
    if v != 0.93113217376043778:
        res.add_violation(dict(driver="literal", message=f"GKLS(3,1) at (0.9,0.5,0.3) = {v!r}, suite literal 0.93113217376043778", sig={}))
    st0 = generator_selftest()
    if abs(st0 - 0.27452626307394156768) > 1e-15:
        res.add_violation(dict(driver="generator", message=f"Knuth generator self-test: state[0] = {st0!r}, "
                                                           f"expected 0.27452626307394156768", sig={}))
    ttasks = [dict(n=n, k=k) for n in (2, 3, 4, 5) for k in (range(1, 101) if th else range(1 + ctx.seed % 5, 101, 5))]
    for t, msgs in zip(ttasks, pmap(twice_case, ttasks, chunksize=4)):
        for m in msgs:
            res.add_violation(dict(driver="twice", n=t["n"], k=t["k"], message=m, sig={}))
    res.cov = dict(
        evaluations=ev, distinct_nontrivial=len(tasks),
        rule="one structural examination per GKLS function (tables, exact values at the 10 minimisers, paraboloid identity "
             "on the lattice outside the balls, continuity across each of the 9 ball boundaries along 2n+2+8 directions (thorough: all sign vectors, towards the other minimisers, skewed axis pairs) at "
             "4 (8) scales, basin covers on the polar lattice, recorded reference values); distinct non-trivial = functions",
        exhaustive=True, functions=len(tasks), least_separation=minsep, least_gap_to_global=mingap,
        largest_boundary_jump_at_1em7=maxdisc, basin_cells=cells, generator_state0=st0, reconstructions=len(ttasks),
        states=len(tasks), transitions=ev, traces_validated_against_impl=len(tasks),
        samples=[dict(n=2, k=1), dict(n=5, k=100)],
    )
    res.assumptions = ["reference values were recorded from the pinned tree by tools/make_golden.py (GKLS sources are not "
                       "touched by any fix: commit); the Knuth self-test value is the pre-2002 rng-double.c value the port "
                       "reproduces (golden anchor, not independent proof)",
                       "continuity is examined along finitely many directions and scales per ball"]
    return res


def optimized_interpreter():
    """the same values from an interpreter started with -O (assert statements stripped): -> messages"""
    import subprocess, sys, os, json
    code = ("import json,numpy as np\nfrom iOpt.problems.GKLS import GKLS\nfrom iOpt.trial import Point, FunctionValue\n"
            "out={}\nfor n,k in ((2,1),(3,7),(4,50),(5,100)):\n"
            "    g=GKLS(n,k); pts=[np.full(n,0.3), -np.full(n,0.55)]\n"
            "    out[f'{n},{k}']=[float(g.Calculate(Point(p,[]),FunctionValue()).value).hex() for p in pts]\nprint('OUT'+json.dumps(out))")
    res = []
    for flag in ("-c", "-O"):
        cmd = [sys.executable] + (["-O"] if flag == "-O" else []) + ["-c", code]
        p = subprocess.run(cmd, capture_output=True, text=True, env=dict(os.environ))
        line = [l for l in p.stdout.splitlines() if l.startswith("OUT")]
        res.append(json.loads(line[0][3:]) if line else {"error": p.stderr[-300:]})
    if res[0] != res[1]:
        bad = [k for k in res[0] if res[1].get(k) != res[0][k]] or list(res[1])
        return [f"GKLS values from an interpreter started with -O differ from the ordinary interpreter for {bad}: "
                f"{ {k: res[1].get(k) for k in bad[:2]} } vs { {k: res[0].get(k) for k in bad[:2]} } {res[1].get('error', '')}"]
    return []


def replay(rec):
    if rec.get("driver") == "optimized":
        return optimized_interpreter()
    d = rec["driver"]
    if d == "structure":
        gold = json.load(open(GOLD)) if os.path.exists(GOLD) else {}
        return structure_case(dict(n=rec["n"], k=rec["k"], gold=gold.get(f"{rec['n']},{rec['k']}")))[0]
    if d == "twice":
        return twice_case(rec)
    if d == "literal":
        from iOpt.problems.GKLS import GKLS
        v = gkls.value(GKLS(3), [0.9, 0.5, 0.3])
        return [] if v == 0.93113217376043778 else [f"literal mismatch {v!r}"]
    if d == "generator":
        st0 = generator_selftest()
        return [] if abs(st0 - 0.27452626307394156768) <= 1e-15 else [f"self-test state {st0!r}"]
    return [rec.get("message", "")]

"""C19 - the search-data containers act as an ordered set plus max-priority queues.

Explicit-state BFS over operation histories of the real containers against a boring reference model
(sorted list + list of (priority, item) entries).  A state is the operation list reaching it and is
rebuilt by replay on fresh objects; states are merged on the canonical content (ordered items with
their characteristics, queue multisets).  The public CharacteristicsQueue methods are wrapped by
recorders so that every pop the implementation makes is fed to the model: tie order is never predicted."""
import itertools
import math

from mc.common import Result, pmap

from iOpt.method import search_data as sdm
from iOpt.method.search_data import SearchData, SearchDataDualQueue, SearchDataItem, CharacteristicsQueue
from iOpt.trial import Point

PROPERTY = "C19"
LEVEL = "model_checking"
NINF = -math.inf

# ---------------------------------------------------------------- recording wrappers (class level, public names)
_LOG = []
_orig = {}


def install():
    if _orig:
        return
    for name in ("Insert", "GetBestItem", "Clear"):
        _orig[name] = getattr(CharacteristicsQueue, name)

    def Insert(self, key, dataItem):
        _LOG.append(("ins", id(self), key, dataItem))
        return _orig["Insert"](self, key, dataItem)

    def GetBestItem(self):
        r = _orig["GetBestItem"](self)
        _LOG.append(("pop", id(self), r[1], r[0]))
        return r

    def Clear(self):
        _LOG.append(("clr", id(self)))
        return _orig["Clear"](self)
    CharacteristicsQueue.Insert = Insert
    CharacteristicsQueue.GetBestItem = GetBestItem
    CharacteristicsQueue.Clear = Clear


def mk(x, g, l=None):
    it = SearchDataItem(Point([x], []), x)
    it.globalR = g
    it.localR = g if l is None else l
    return it


# ---------------------------------------------------------------- part 1: CharacteristicsQueue alone
QOPS = [("ins", 1.0), ("ins", 2.0), ("ins", 3.0), ("ins", NINF), ("pop", None), ("clr", None)]


def queue_history(maxlen, seq):
    """-> (messages, canonical model state)"""
    try:
        return _queue_history(maxlen, seq)
    except Exception as e:
        return [f"maxlen={maxlen} ops {[QOPS[i] for i in seq]}: a queue operation raised {type(e).__name__}: {e}"], None


def _queue_history(maxlen, seq):
    q = CharacteristicsQueue(maxlen)
    model = []           # list of (priority, serial)
    items = {}
    msgs = []
    if q.GetMaxLen() != maxlen:
        msgs.append(f"GetMaxLen()={q.GetMaxLen()!r} for a queue built with maxlen={maxlen!r}")
    for j, k in enumerate(seq):
        op, pr = QOPS[k]
        if op == "ins":
            it = mk(j / 16.0, pr)
            items[id(it)] = j
            q.Insert(pr, it)
            model.append((pr, j))
            if maxlen is not None and len(model) > maxlen:
                lo = min(p for p, _ in model)
                # which of several lowest entries is dropped is not specified: compare priorities only
                model.remove(next(e for e in reversed(model) if e[0] == lo))
        elif op == "clr":
            q.Clear()
            model = []
        else:
            if not model:
                if not q.IsEmpty():
                    msgs.append(f"history {seq[:j + 1]}: queue not empty but the model is")
                continue
            it, p = q.GetBestItem()
            mx = max(e[0] for e in model)
            if p != mx:
                msgs.append(f"maxlen={maxlen} ops {[QOPS[i] for i in seq[:j + 1]]}: GetBestItem returned priority {p!r}, "
                            f"the highest queued priority is {mx!r}")
                return msgs, None
            if getattr(it, "globalR", None) != p:
                msgs.append(f"maxlen={maxlen} ops {[QOPS[i] for i in seq[:j + 1]]}: returned item was queued with "
                            f"{getattr(it, 'globalR', None)!r}, reported priority {p!r}")
            cand = [e for e in model if e[0] == mx and e[1] == items.get(id(it))] or [e for e in model if e[0] == mx]
            model.remove(cand[0])
        if q.GetLen() != len(model) or q.IsEmpty() != (not model):
            msgs.append(f"maxlen={maxlen} ops {[QOPS[i] for i in seq[:j + 1]]}: GetLen()={q.GetLen()}, IsEmpty()={q.IsEmpty()}, "
                        f"model holds {len(model)} entries")
            return msgs, None
    return msgs, tuple(sorted(p for p, _ in model))


def queue_task(task):
    maxlen, depth, first = task
    viol = []
    n = 0
    outcomes = set()
    for tail in itertools.product(range(len(QOPS)), repeat=depth - 1):
        seq = (first,) + tail
        msgs, st = queue_history(maxlen, seq)
        n += 1
        outcomes.add(st)
        for m in msgs:
            viol.append(dict(driver="queue", maxlen=maxlen, seq=list(seq), message=m, sig={}))
        if len(viol) > 10:
            break
    return n, len(outcomes), viol


# ---------------------------------------------------------------- part 2: SearchData / SearchDataDualQueue
XS = [0.125, 0.25, 0.5, 0.75]
CS = [1.0, 2.0, NINF]
OVS = [0.0, 2.5, 2.0000001]     # 2.0000001: a characteristic that moved by less than 1e-7 relative is still stale


def sd_ops(dual):
    ops = []
    for x in XS:
        for c in CS:
            for hint in (True, False):
                ops.append(("ins", x, c, hint))
    for x in (0.25, 0.5):
        for hint in (True, False):
            ops.append(("dup", x, 2.0, hint))      # a second item with a coordinate that is already stored
    for x in XS + [1.0]:
        for v in OVS:
            ops.append(("ovw", x, v))
    # a hintless insertion at / beyond the right end has no covering interval: the container refuses it (it raises);
    # whatever it does, the set must stay the ordered set of the items it accepted
    ops += [("rej", 1.0), ("rej", 1.5)]
    # the caller continues on a deep copy of the container (a checkpoint): the copy is the same ordered set
    ops += [("fork",)]
    ops += [("clear",), ("refill",), ("best",)]
    if dual:
        ops.append(("bestlocal",))
    return ops


class Model:
    def __init__(self, dual, maxlen=None):
        self.dual = dual
        self.maxlen = maxlen         # bounded queues keep the maxlen highest entries (which of equal lowest ones goes is free)
        self.items = []              # real items, sorted by x
        self.q = {}                  # queue object id -> list of (priority, item)
        self.role = {}               # queue id -> "g" / "l"

    def canon(self):
        its = tuple((it.GetX(), it.globalR, it.localR) for it in self.items)
        qs = tuple(sorted(tuple(sorted((p, it.GetX()) for p, it in v)) for k, v in self.q.items()))
        return (its, qs)


def localR(c):
    # a different order than the global one so that the two queues disagree; all local values are >= 100 so that a
    # queue's role can be read off any of its entries
    return {1.0: 102.0, 2.0: 101.0, NINF: 100.0, 0.0: 100.25, 2.5: 102.75, 2.0000001: 101.00000005}[c]


def role_of(ents):
    return "l" if any(p >= 50 for p, _ in ents) else "g"


def drain(model, msgs, ctx, request=None):
    """feed the recorded queue events to the model; for a request check the pop discipline"""
    pops = []
    model.events_seen = getattr(model, "events_seen", 0) + len(_LOG)
    for ev in _LOG:
        kind, qid = ev[0], ev[1]
        ents = model.q.setdefault(qid, [])
        if kind == "ins":
            ents.append((ev[2], ev[3]))
            if model.maxlen is not None and len(ents) > model.maxlen:
                lo = min(p for p, _ in ents)
                ents.remove(next(e for e in reversed(ents) if e[0] == lo))
                model.evicted = True
        elif kind == "clr":
            ents.clear()
        else:
            pr, it = ev[2], ev[3]
            if not ents:
                msgs.append(f"{ctx}: an entry was taken from an empty queue")
                continue
            mx = max(p for p, _ in ents)
            hit = [e for e in ents if e[0] == pr and e[1] is it]
            if not hit and model.maxlen is not None:
                # bounded queue: which of several equal lowest entries was evicted is not specified
                hit = [e for e in ents if e[0] == pr]
            if not hit:
                msgs.append(f"{ctx}: queue returned (x={it.GetX()}, priority {pr!r}) which was never queued")
                continue
            if pr != mx:
                msgs.append(f"{ctx}: queue returned priority {pr!r} while an entry with {mx!r} is queued")
            ents.remove(hit[0])
            pops.append((qid, pr, it))
    del _LOG[:]
    return pops


def top_priorities(model, role):
    """what a queue of this role must hold after a refill: one current entry per item, the maxlen highest if bounded"""
    want = sorted((i.globalR if role == "g" else i.localR) for i in model.items)
    if model.maxlen is not None:
        want = want[-model.maxlen:]
    return want


def sd_history(dual, seq, ops=None, maxlen=None):
    """replay an operation list on fresh objects; -> (messages, model or None, enabled op indices).
    An exception escaping from a container operation is a finding, not a harness failure."""
    try:
        return _sd_history(dual, seq, ops, maxlen)
    except Exception as e:
        ops_ = ops or sd_ops(dual)
        import traceback
        where = traceback.extract_tb(e.__traceback__)[-1]
        return [f"{'dual' if dual else 'plain'}{'' if maxlen is None else f' maxlen={maxlen}'} ops "
                f"{[ops_[i] for i in seq]}: a container operation raised {type(e).__name__}: {e} "
                f"({where.filename.split('/')[-1]}:{where.lineno})"], None, []


def _sd_history(dual, seq, ops=None, maxlen=None):
    install()
    ops = ops or sd_ops(dual)
    del _LOG[:]
    sd = (SearchDataDualQueue if dual else SearchData)(None, maxlen) if maxlen is not None else \
        (SearchDataDualQueue if dual else SearchData)(None)
    model = Model(dual, maxlen)
    left, right = mk(0.0, NINF, localR(NINF)), mk(1.0, 1.0, localR(1.0))
    sd.InsertFirstDataItem(left, right)
    model.items = [left, right]
    msgs = []
    drain(model, msgs, "InsertFirstDataItem")
    for j, k in enumerate(seq):
        op = ops[k]
        ctx = f"{'dual' if dual else 'plain'}{'' if maxlen is None else f' maxlen={maxlen}'} ops {[ops[i] for i in seq[:j + 1]]}"
        if op[0] in ("ins", "dup"):
            _, x, c, hint = op
            it = mk(x, c, localR(c))
            if op[0] == "dup":
                # equal coordinates: with a hint the new item goes immediately to the left of the hinted item (the stored
                # item with that coordinate); without one, to the left of the first item strictly to the right
                rightn = next(i for i in model.items if i.GetX() == x) if hint else next(i for i in model.items if i.GetX() > x)
            else:
                rightn = next(i for i in model.items if i.GetX() > x)
            sd.InsertDataItem(it, rightn if hint else None)
            model.items.insert(model.items.index(rightn), it)
            events = list(_LOG)
            drain(model, msgs, ctx)
            # exactly the new interval - and, with a hint, the shortened right neighbour - is queued by an insertion
            for qid in {ev[1] for ev in events}:
                ins = [ev[3] for ev in events if ev[0] == "ins" and ev[1] == qid]
                want = [it] + ([rightn] if hint else [])
                if sorted(map(id, ins)) != sorted(map(id, want)) and maxlen is None:
                    msgs.append(f"{ctx}: the insertion queued x={[i.GetX() for i in ins]} in one queue; exactly "
                                f"x={[i.GetX() for i in want]} (the new item{' and the hinted neighbour' if hint else ''}) "
                                f"should be queued")
            for qid, ents in model.q.items():
                if ents:
                    model.role[qid] = role_of(ents)
            # the new interval (and, with a hint, the shortened right neighbour) must now be queued
            for qid, ents in model.q.items():
                role = model.role.get(qid)
                for i2 in [it] + ([rightn] if hint else []):
                    pr = i2.globalR if role == "g" else i2.localR
                    if maxlen is not None:
                        continue      # a bounded queue may have evicted it at once; retention is judged at the requests
                    if role and not any(p == pr and i is i2 for p, i in ents):
                        msgs.append(f"{ctx}: after the insertion the {role} queue has no entry ({pr!r}, x={i2.GetX()})")
        elif op[0] == "fork":
            import copy as _copy
            memo = {}
            sd2 = _copy.deepcopy(sd, memo)
            # the model follows the copy: its items are the copies of the original's items
            twin = {id(i): memo.get(id(i)) for i in model.items}
            if any(v is None for v in twin.values()):
                msgs.append(f"{ctx}: a deep copy of the container does not contain copies of all stored items")
                return msgs, None, []
            sd = sd2
            model.items = [twin[id(i)] for i in model.items]
            newq, newrole = {}, {}
            for qid, ents in list(model.q.items()):
                q2 = id(memo[qid]) if qid in memo else qid       # the copy's queue object stands for the original's
                newq[q2] = [(pr, twin.get(id(i), i)) for pr, i in ents]
                if qid in model.role:
                    newrole[q2] = model.role[qid]
            model.q, model.role = newq, newrole
            model.forked = True
        elif op[0] == "rej":
            it = mk(op[1], 2.0, localR(2.0))
            try:
                sd.InsertDataItem(it, None)
                model.items.append(it)       # accepted: then it is the last item of the set
            except Exception:
                pass                          # refused: the set is what it was
            drain(model, msgs, ctx)
            for qid, ents in model.q.items():
                if ents:
                    model.role[qid] = role_of(ents)
        elif op[0] == "ovw":
            _, x, v = op
            it = next(i for i in model.items if i.GetX() == x)
            it.globalR = v
            it.localR = localR(v)
        elif op[0] == "clear":
            sd.ClearQueue()
            drain(model, msgs, ctx)
            if any(model.q.values()):
                msgs.append(f"{ctx}: ClearQueue left entries queued")
        elif op[0] == "refill":
            sd.RefillQueue()
            drain(model, msgs, ctx)
            for qid, ents in model.q.items():
                role = role_of(ents)
                model.role[qid] = role
                want = sorted(((i.globalR if role == "g" else i.localR), i.GetX()) for i in model.items)
                if maxlen is not None:
                    if sorted(p for p, _ in ents) != top_priorities(model, role):
                        msgs.append(f"{ctx}: after RefillQueue the bounded {role} queue (maxlen={maxlen}) holds priorities "
                                    f"{sorted(p for p, _ in ents)}, the {maxlen} highest current ones are "
                                    f"{top_priorities(model, role)}")
                elif sorted((p, i.GetX()) for p, i in ents) != want:
                    msgs.append(f"{ctx}: after RefillQueue the {role} queue holds {sorted((p, i.GetX()) for p, i in ents)}, "
                                f"expected one current entry per item {want}")
        else:
            local = op[0] == "bestlocal"
            before = {qid: list(v) for qid, v in model.q.items()}
            got = sd.GetDataItemWithMaxLocalR() if local else sd.GetDataItemWithMaxGlobalR()
            events = list(_LOG)
            pops = drain(model, msgs, ctx)
            if not pops and model.events_seen == 0:
                # the containers do not go through the public CharacteristicsQueue methods at all (another queue
                # implementation): the recorders see nothing, so only the black-box part can be judged
                if not any(got is i for i in model.items):
                    msgs.append(f"{ctx}: best-interval request returned an object that is not a stored item")
                pops = None
            if pops:
                # a request may refill its queue only when that queue has run empty, and it hands out the last entry
                # it takes: nothing may be queued or cleared in that queue after the returned entry was taken
                rq = pops[-1][0]
                held = len(before.get(rq, []))
                last_pop = max(i for i, ev in enumerate(events) if ev[0] == "pop" and ev[1] == rq)
                for i, ev in enumerate(events):
                    if ev[1] != rq:
                        continue
                    if i > last_pop:
                        msgs.append(f"{ctx}: the request changed its queue ({ev[0]}) after taking the entry it returned - the "
                                    f"queue no longer is the one implied by the operations")
                        break
                    if ev[0] == "pop":
                        held -= 1
                    elif ev[0] == "clr":
                        if held > 0:
                            msgs.append(f"{ctx}: the request cleared / refilled its queue although it still held {held} entries")
                            break
                        held = 0
                    else:
                        held += 1
            if pops is None:
                pass
            elif not pops:
                msgs.append(f"{ctx}: best-interval request made no queue access")
            else:
                qid, pr, it = pops[-1]
                if got is not it:
                    msgs.append(f"{ctx}: request returned x={got.GetX()} but the last entry taken was x={it.GetX()}")
                cur = (lambda i: i.localR) if local else (lambda i: i.globalR)
                if dual:
                    if pr != cur(it):
                        msgs.append(f"{ctx}: returned item x={it.GetX()} was queued with {pr!r} but its characteristic is now "
                                    f"{cur(it)!r} (stale entry returned)")
                    for (_, p2, i2) in pops[:-1]:
                        if p2 == cur(i2):
                            # discarded although current: only legal if the queue ran empty and was refilled in between
                            pass
                # maximality among what was queued when the request started (or after the refill it triggered)
                ents0 = before.get(qid, [])
                pool = ents0 if ents0 else [((i.localR if local else i.globalR), i) for i in model.items]
                if dual:
                    pool_cur = [p for p, i in pool if p == cur(i)]
                    if not pool_cur:
                        pool_cur = [cur(i) for i in model.items]
                    best = max(pool_cur)
                else:
                    best = max(p for p, _ in pool)
                if pr != best and maxlen is not None and pr == max(cur(i) for i in model.items):
                    # bounded queue: which of several equal lowest entries was evicted earlier is not specified, so the
                    # implementation may have been left with stale entries only, refilled, and returned the overall
                    # maximum of the current characteristics - never worse than what the statement asks for
                    pass
                elif pr != best:
                    msgs.append(f"{ctx}: request returned an entry with characteristic {pr!r}; the maximal "
                                f"{'current ' if dual else ''}queued characteristic was {best!r}")
        # ordered-set oracle after every operation
        got = []
        for i in sd:
            got.append(i)
            if len(got) > 5000:
                break
        if got != model.items:
            msgs.append(f"{ctx}: traversal yields x={[i.GetX() for i in got]}, expected {[i.GetX() for i in model.items]}")
        else:
            for a, b in zip(got, got[1:]):
                if a.GetRight() is not b or b.GetLeft() is not a:
                    msgs.append(f"{ctx}: neighbour links inconsistent between x={a.GetX()} and x={b.GetX()}")
            if got[0].GetLeft() is not None or got[-1].GetRight() is not None:
                msgs.append(f"{ctx}: end items have outer neighbours")
        if sd.GetCount() != len(model.items):
            msgs.append(f"{ctx}: GetCount()={sd.GetCount()}, {len(model.items)} items inserted")
        for qx in (0.0, 0.0625, 0.125, 0.2, 0.25, 0.3, 0.5, 0.6, 0.75, 0.9, 1.0, 1.5):
            f = sd.FindDataItemByOneDimensionalPoint(qx)
            e = next((i for i in model.items if i.GetX() > qx), None)     # nothing to the right: no covering interval
            if f is not e:
                msgs.append(f"{ctx}: FindDataItemByOneDimensionalPoint({qx}) returned x={None if f is None else f.GetX()}, "
                            f"first item to the right is x={None if e is None else e.GetX()}")
        drain(model, msgs, ctx)
        if msgs:
            return msgs, None, []
    have = {i.GetX() for i in model.items}
    xs_all = [i.GetX() for i in model.items]
    enabled = [k for k, op in enumerate(ops)
               if (op[0] == "ins" and op[1] not in have) or (op[0] == "dup" and xs_all.count(op[1]) == 1) or (op[0] == "ovw" and op[1] in have and
                                                             next(i for i in model.items if i.GetX() == op[1]).globalR != op[2])
               or op[0] in ("clear", "refill", "best", "bestlocal", "rej") or (op[0] == "fork" and not getattr(model, "forked", False))]
    return msgs, model, enabled


def sd_bfs(task):
    """BFS below one first operation, merging on the canonical model state"""
    dual, depth, first = task[:3]
    maxlen = task[3] if len(task) > 3 else None
    ops = sd_ops(dual)
    msgs, model, enabled = sd_history(dual, [first], ops, maxlen)
    viol = [dict(driver="sd", dual=dual, maxlen=maxlen, seq=[first], message=m, sig={}) for m in msgs]
    if model is None:
        return 1, 1, viol, 0
    seen = {model.canon()}
    frontier = [([first], enabled)]
    trans = 1
    for d in range(2, depth + 1):
        nxt = []
        for seq, en in frontier:
            for k in en:
                s2 = seq + [k]
                msgs, model, en2 = sd_history(dual, s2, ops, maxlen)
                trans += 1
                for m in msgs:
                    viol.append(dict(driver="sd", dual=dual, maxlen=maxlen, seq=s2, message=m, sig={}))
                if model is None:
                    continue
                c = model.canon()
                if c not in seen:
                    seen.add(c)
                    nxt.append((s2, en2))
            if len(viol) > 10:
                return len(seen), trans, viol, d
        frontier = nxt
    return len(seen), trans, viol, depth


def long_history(task):
    """one long scripted history (about 150 insertions in bit-reversal order with and without hints, a best-interval
    request after every third operation - global and local alternating -, an overwritten characteristic now and then
    with decreasing values, a refill every 25th step), judged step by step by the same model"""
    dual, maxlen = task
    ops = []
    xs = [((int(format(i, "08b")[::-1], 2)) + 0.5) / 256.0 for i in range(1, 150)]
    chars = [1.0, 2.0, NINF, 2.0, 1.0]
    seq = []

    def add(op):
        ops.append(op)
        seq.append(len(ops) - 1)
    inserted = []
    for i, x in enumerate(xs):
        add(("ins", x, chars[i % 5], i % 3 != 0))
        inserted.append(x)
        if i % 3 == 1:
            add(("bestlocal",) if dual and i % 2 else ("best",))
        if i % 7 == 3:
            add(("ovw", inserted[(i * 5) % len(inserted)], (2.5, 2.0000001, 0.0)[(i // 7) % 3]))
        if i % 25 == 24:
            add(("refill",))
        if i % 40 == 39:
            add(("clear",))
    msgs, model, _ = sd_history(dual, seq, ops, maxlen)
    return len(seq), msgs[:3]


def first_ops(dual):
    ops = sd_ops(dual)
    _, model, enabled = sd_history(dual, [], ops)
    return enabled


def run(ctx):
    res = Result()
    th = ctx.thorough
    qd = 8 if th else 6
    qtasks = [(ml, d, f) for ml in (None, 1, 2, 3) for d in range(1, qd + 1) for f in range(len(QOPS))]
    qn = 0
    qout = 0
    for t, (n, no, viol) in zip(qtasks, pmap(queue_task, qtasks)):
        qn += n
        qout += no
        res.merge_violations(viol)
    depth = 5 if th else 4
    tasks = [(dual, depth, f, None) for dual in (False, True) for f in first_ops(dual)]
    # the containers built with a bounded characteristics queue (maxlen 2: fewer places than intervals)
    tasks += [(dual, depth, f, 2) for dual in (False, True) for f in first_ops(dual)]
    states = trans = 0
    for t, (ns, nt, viol, d) in zip(tasks, pmap(sd_bfs, tasks)):
        states += ns
        trans += nt
        res.merge_violations(viol)
    # deep histories: hundreds of operations on one container (beyond any exhaustive depth)
    ltasks = [(dual, ml) for dual in (False, True) for ml in (None, 2, 64)]
    for t, (n, msgs) in zip(ltasks, pmap(long_history, ltasks)):
        trans += n
        for m in msgs:
            res.add_violation(dict(driver="long", dual=t[0], maxlen=t[1], message=m, sig={}))
    res.cov = dict(
        states=states, transitions=trans, traces_validated_against_impl=trans + qn, evaluations=trans + qn,
        distinct_nontrivial=states,
        rule="states = distinct canonical container states (ordered items with characteristics + queue multisets) reached "
             "by BFS over operation histories, one BFS per first operation (states counted per BFS); transitions = "
             "operation histories executed on fresh real containers and judged step by step by the model; queue part: all "
             "operation sequences over 6 operations up to the depth for maxlen in {None,1,2,3}",
        exhaustive=True, sd_depth=depth, queue_depth=qd, queue_histories=qn, queue_distinct_outcomes=qout,
        operations=dict(plain=len(sd_ops(False)), dual=len(sd_ops(True))),
        samples=[[sd_ops(True)[k] for k in (0, 25, 34, 35)], [QOPS[k] for k in (1, 1, 4, 0, 4)]],
    )
    res.assumptions = ["NaN characteristics excluded; pops are observed through recorders wrapped around the public "
                       "CharacteristicsQueue methods; which of several equal-priority entries leaves first is not specified"]
    return res


def replay(rec):
    if rec["driver"] == "long":
        return long_history((rec["dual"], rec["maxlen"]))[1]
    if rec["driver"] == "queue":
        return queue_history(rec["maxlen"], rec["seq"])[0]
    return sd_history(rec["dual"], rec["seq"], None, rec.get("maxlen"))[0]

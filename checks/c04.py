"""C04 - the reported optimum is the best trial actually evaluated, at every moment.

Monitor on the answer trees (alphabets rich in equal values) and deviation-bounded long runs:
after every iteration, inside every listener callback, during Solve and on the returned
Solution.  Second driver: refineSolution=True on deterministic objectives."""
import numpy as np

from mc.common import Result, pmap
from mc import solverexp, tree
from mc.envs import make_env
from mc.monitors import MomentVisitor, check_optimum

PROPERTY = "C04"
LEVEL = "model_checking"
VIS = "checks.c04:Vis"


class Vis(MomentVisitor):
    def oracle(self, run, snap, where):
        return check_optimum(snap, run.problem.log, where)

    def nontrivial(self, run):
        vals = [v for _, v in run.problem.log]
        # the optimum moved at least once after the first trial, or the minimum is attained more than once
        return any(v < min(vals[:i]) for i, v in enumerate(vals) if i) or vals.count(min(vals)) > 1


def refine_case(task):
    cfg = task
    f = make_env(cfg["env"], cfg)
    run = tree.make_run(cfg, f)
    msgs = []
    try:
        sol = run.solve()
    except BaseException as e:
        return [f"Solve raised {type(e).__name__}: {e}"]
    log = run.problem.log
    bt = sol.bestTrials[0]
    bp = np.array(bt.point.floatVariables, dtype=float)
    bv = bt.functionValues[0].value
    fresh = f(0, bp)
    if not (bv == fresh):
        msgs.append(f"refined: reported value {bv!r} but the objective at the reported point {bp.tolist()} is {fresh!r}")
    zmin = min(v for _, v in log)
    if not (bv <= zmin):
        msgs.append(f"refined: reported value {bv!r} but an evaluated trial has the smaller value {zmin!r}")
    if not any(np.array_equal(y, bp) for y, _ in log):
        msgs.append(f"refined: reported point {bp.tolist()} is not one of the {len(log)} evaluated points")
    return msgs


def history_case(task):
    """Step-wise histories over {G: two global iterations, S: Solve, L: DoLocalRefinement(8)}: after every operation the
    reported value must be the objective at the reported point (re-evaluated), the point lies in the box, and - as long
    as no refinement has happened - the reported optimum is the best search trial."""
    import numpy as np
    from mc import tree
    from mc.env import Snapshot
    from mc.envs import make_env
    from mc.monitors import check_optimum
    cfg = dict(N=task["N"], r=2.5, box=task["box"], env=task["env"], eps=0.0, itersLimit=task["limit"])
    f = make_env(cfg["env"], cfg)
    run = tree.make_run(cfg, f)
    msgs = []
    done = []
    refined = False
    for op in task["ops"]:
        done.append(op)
        try:
            if op == "G":
                run.step(2)
            elif op == "S":
                run.solve()
            else:
                run.refine(8, lambda y: f(0, y))
                refined = True
        except BaseException as e:
            msgs.append(f"{cfg['env']} N={cfg['N']}: operations {done} raised {type(e).__name__}: {e}")
            break
        snap = Snapshot(run.solver)
        if snap.best_point is None:
            msgs.append(f"{cfg['env']} N={cfg['N']}: after {done} no best trial is reported")
            break
        v = f(0, snap.best_point)
        if not (snap.best_value == v):
            msgs.append(f"{cfg['env']} N={cfg['N']}: after {done} the reported value {snap.best_value!r} is not the objective "
                        f"{v!r} at the reported point {snap.best_point.tolist()}")
            break
        if not refined:
            msgs += [f"{cfg['env']} N={cfg['N']} after {done}: {m}" for m in check_optimum(snap, run.problem.log, "step-wise")]
            if msgs:
                break
    return msgs


def run(ctx):
    tasks = solverexp.standard_plan(ctx, VIS, alphabets_fixed=("A001", "A013", "Ahalf"),
                                    alphabet_pool=("A01", "Am201", "A3210"), n_seeded=1,
                                    depths_quick=(7, 6, 5, 5, 4), depths_thorough=(9, 8, 7, 6, 6))
    res, agg = solverexp.execute(tasks)
    import itertools
    from mc.common import pmap as _pmap
    htasks = []
    for N, bx, env in ((1, "B1", "sin"), (2, "B2", "abs13"), (1, "B0", "stair")) + (((3, "B1", "sin"),) if ctx.thorough else ()):
        for L in range(1, 5 if not ctx.thorough else 6):
            for tail in itertools.product("GSL", repeat=L - 1):
                for limit in (3, 9):
                    htasks.append(dict(N=N, box=bx, env=env, ops=["G"] + list(tail), limit=limit))
    for t, msgs in zip(htasks, _pmap(history_case, htasks, chunksize=8)):
        for m in msgs:
            res.add_violation(dict(driver="history", **t, message=m, sig={}))
    # Solve with each shipped painting listener attached (they probe the objective and draw through the optimum when
    # the method stops): the returned Solution / the record must still be those of the search trials
    from mc import painters
    from mc.common import pmap
    ptasks = painters.tasks(ctx.thorough)
    for t, o in zip(ptasks, pmap(painters.case, ptasks, chunksize=2)):
        for m in o["c04"]:
            res.add_violation(dict(driver="painter", **t, message=m, sig={}))
    rtasks = []
    for N in (1, 2, 3) if not ctx.thorough else (1, 2, 3, 4, 5):
        for env in ("abs13", "lin", "neglin", "quad", "sin", "stair", "const"):
            for bx in ("B0", "B1", "B2") if not ctx.thorough else ("B0", "B1", "B2", "B3"):
                for lim in (1, 2, 20, 100, 400):
                    rtasks.append(dict(N=N, r=2.0, box=bx, env=env, eps=0.01, itersLimit=lim, refine=True))
    out = pmap(refine_case, rtasks, chunksize=4)
    for t, msgs in zip(rtasks, out):
        for m in msgs:
            res.add_violation(dict(driver="refine", cfg=t, message=m, sig=dict(kind="refine")))
    s = agg["summary"]
    # a solver copied mid-run (deepcopy / pickle) and continued: copy and original judged by the same oracle
    from mc import copyrun
    from mc.common import pmap as _pm
    ctasks = copyrun.tasks(ctx.thorough)
    for t, msgs in zip(ctasks, _pm(copyrun.case_c04, ctasks, chunksize=4)):
        for mm in msgs:
            res.add_violation(dict(driver="copy", task=t, message=mm, sig={}))
    res.cov = dict(
        states=agg["nodes"], transitions=agg["nodes"], traces_validated_against_impl=agg["runs"] + s.get("solve_twins", 0),
        evaluations=agg["trials"], distinct_nontrivial=s.get("nontrivial_runs", 0),
        moments_checked=s.get("moments", 0) + s.get("callback_moments", 0), callback_moments=s.get("callback_moments", 0),
        refine_executions=len(rtasks),
        rule="states = distinct answer histories; at each the current best trial is compared with the logged evaluations "
             "(member of the log, value equals the answer there, no smaller answer) from outside, inside OnEndIteration, "
             "inside OnMethodStop of a Solve twin and on the returned Solution; non-trivial = executions whose optimum "
             "moved after the first trial or whose minimum value is attained by several trials",
        exhaustive=True, painter_runs=len(ptasks), stepwise_histories=len(htasks), bounds=solverexp.describe(tasks), resolution_horizon_stops=agg["horizon_stops"],
        samples=[dict(cfg=t["cfg"], alphabet=t.get("alphabet"), prefix=t.get("prefix"), depth=t.get("depth"))
                 for t in tasks[:2]] + rtasks[:2],
    )
    res.assumptions = ["the Recorder listener used to observe callback moments does not interfere (C13)"]
    return res


def replay(rec):
    if rec.get("driver") == "copy":
        from mc import copyrun
        return copyrun.case_c04(rec["task"])
    if rec.get("driver") == "history":
        return history_case(rec)
    if rec.get("driver") == "painter":
        from mc import painters
        return painters.case(rec)["c04"]
    if rec["driver"] == "refine":
        return refine_case(rec["cfg"])
    return solverexp.replay(rec, VIS)

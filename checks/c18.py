"""C18 - problem metadata is well-formed and the published tables agree with the functions.

Exhaustive over every constructor argument of every family (metadata) and all 2 x 1000 rows of the Hill
and Shekel tables: minimum and maximum rows by the certified 1-D cover of C10 applied to f and -f
(value 1e-4, location 1e-4 of the range), Lipschitz rows by an exhaustive cover of |f'| (cell bound
|secant slope| + F2*(b-a) with an analytic second-derivative bound; lower bound = largest secant slope)."""
import math

import numpy as np

from mc.common import Result, pmap
from mc import bench, cover

PROPERTY = "C18"
LEVEL = "exploration"


def members():
    out = [("Hill", (k,)) for k in range(1000)] + [("Shekel", (k,)) for k in range(1000)]
    out += [("Grishagin", (k,)) for k in range(1, 101)]
    out += [("GKLS", (n, k)) for n in (2, 3, 4, 5) for k in range(1, 101)]
    out += [("Shekel4", (k,)) for k in (1, 2, 3)]
    out += [("Rastrigin", (n,)) for n in range(1, 9)] + [("XSquared", (n,)) for n in range(1, 9)]
    out += [("StronginC3", ())]
    # the same constructor arguments spelled as numpy integers / 0-d arrays (an element of np.arange, np.squeeze of a table)
    for n in (2, 3, 5):
        out += [("Rastrigin", (np.int64(n),)), ("Rastrigin", (np.array(n),)), ("XSquared", (np.int64(n),)), ("XSquared", (np.array(n),))]
    out += [("Hill", (np.int64(7),)), ("Shekel", (np.int32(7),)), ("Grishagin", (np.int64(7),)), ("GKLS", (np.int64(3), np.int64(7))),
            ("Shekel4", (np.int64(2),))]
    return out


def construct(fam, args):
    import importlib
    mod = {"Hill": "iOpt.problems.hill", "Shekel": "iOpt.problems.shekel", "Grishagin": "iOpt.problems.grishagin",
           "GKLS": "iOpt.problems.GKLS", "Shekel4": "iOpt.problems.shekel4", "Rastrigin": "iOpt.problems.rastrigin",
           "XSquared": "iOpt.problems.xsquared", "StronginC3": "iOpt.problems.stronginC3"}[fam]
    return getattr(importlib.import_module(mod), fam)(*args)


def metadata_chunk(items):
    out = []
    for fam, args in items:
        tag = f"{fam}{tuple(args)}"
        msgs = []
        try:
            p = construct(fam, args)
        except Exception as e:
            out.append([f"{tag}: constructor raised {type(e).__name__}: {e}"])
            continue
        n = p.numberOfFloatVariables
        if isinstance(n, np.ndarray) and n.ndim == 0 and np.issubdtype(n.dtype, np.integer):
            n = int(n)      # the dimension as the caller spelled it (a 0-d integer array)
        lens = dict(names=len(p.floatVariableNames), lower=len(p.lowerBoundOfFloatVariables),
                    upper=len(p.upperBoundOfFloatVariables))
        if not isinstance(n, (int, np.integer)) or n < 1 or any(v != n for v in lens.values()):
            msgs.append(f"{tag}: numberOfFloatVariables={n!r} but vector lengths are {lens}")
        if hasattr(p, "dimension") and p.dimension != n:
            msgs.append(f"{tag}: dimension attribute {p.dimension!r} != numberOfFloatVariables {n!r}")
        if fam in ("Rastrigin", "XSquared", "GKLS") and n != args[0]:
            msgs.append(f"{tag}: declared dimension {n} differs from the constructor argument {args[0]}")
        lo = np.array([float(v) for v in p.lowerBoundOfFloatVariables])
        up = np.array([float(v) for v in p.upperBoundOfFloatVariables])
        if len(lo) == len(up) and not np.all(lo < up):
            msgs.append(f"{tag}: bounds are not lower < upper: {lo.tolist()} / {up.tolist()}")
        if p.numberOfObjectives != 1:
            msgs.append(f"{tag}: numberOfObjectives = {p.numberOfObjectives!r}")
        if len(set(str(s) for s in p.floatVariableNames)) != len(p.floatVariableNames):
            pass   # duplicate names are not excluded by the statement
        try:
            ko = p.knownOptimum
            if len(ko) < 1:
                msgs.append(f"{tag}: no known optimum declared")
            else:
                pt = np.array([float(v) for v in ko[0].point.floatVariables])
                if len(pt) != n:
                    msgs.append(f"{tag}: known optimum point has {len(pt)} coordinates, dimension is {n}")
                elif len(lo) == n and (np.any(pt < lo) or np.any(pt > up)):
                    msgs.append(f"{tag}: known optimum {pt.tolist()} lies outside the box {lo.tolist()}..{up.tolist()}")
                float(ko[0].functionValues[0].value)
                # the declared optimum belongs to the caller: written over in place it must not change what the next
                # instance of the same member declares
                arr = ko[0].point.floatVariables
                if isinstance(arr, np.ndarray) and arr.flags.writeable and len(pt) == n:
                    arr[...] = arr * 0.5 + 0.123
                    p2 = construct(fam, args)
                    pt2 = np.array([float(v) for v in p2.knownOptimum[0].point.floatVariables])
                    if not np.array_equal(pt2, pt):
                        msgs.append(f"{tag}: after the caller overwrote the known-optimum array it had been given, a new "
                                    f"instance declares {pt2.tolist()} instead of {pt.tolist()}")
        except Exception as e:
            msgs.append(f"{tag}: known optimum malformed: {type(e).__name__}: {e}")
        out.append(msgs)
    return out


def lipschitz_interval(f, lo, up, F2, target_rel=2e-4, max_evals=400000):
    """certified interval [Llo, Lhi] containing max |f'| on [lo, up]"""
    import heapq
    evals = 0
    cache = {}

    def val(x):
        nonlocal evals
        v = cache.get(x)
        if v is None:
            v = cache[x] = f([x])
            evals += 1
        return v
    n0 = 64
    xs = np.linspace(lo, up, n0 + 1)
    heap = []
    Llo = 0.0
    for a, b in zip(xs, xs[1:]):
        a, b = float(a), float(b)
        s = abs(val(b) - val(a)) / (b - a)
        Llo = max(Llo, s)
        heapq.heappush(heap, (-(s + F2 * (b - a)), a, b))
    while heap:
        ub, a, b = heap[0]
        ub = -ub
        if ub <= Llo * (1 + target_rel) or evals > max_evals or (b - a) < 1e-12 * (up - lo):
            return Llo, max(ub, Llo), evals
        heapq.heappop(heap)
        m = 0.5 * (a + b)
        for (p, q) in ((a, m), (m, b)):
            s = abs(val(q) - val(p)) / (q - p)
            Llo = max(Llo, s)
            heapq.heappush(heap, (-(s + F2 * (q - p)), p, q))
    return Llo, Llo, evals


def table_row(task):
    fam, k = task["fam"], task["k"]
    if fam == "Hill":
        import iOpt.problems.Hill.hill_generation as G
        p, L, info = bench.hill(k)
        tmin, tmax, tL = G.minHill[k], G.maxHill[k], float(G.lConstantHill[k])
    else:
        import iOpt.problems.Shekel.shekel_generation as G
        p, L, info = bench.shekel(k)
        tmin, tmax, tL = G.minShekel[k], G.maxHill[k], float(G.lConstantHill[k])
    f = bench.evaluator(p)
    lo, up = bench.bounds(p)
    msgs = []
    evals = und = 0
    B = bench.Second1D(f, L, info["L2"])
    r = cover.certify_optimum(f, lo, up, B, [float(tmin[1])], float(tmin[0]), nb_frac=1e-4, value_tol=1e-4, abs_tol=1e-4,
                              resolve_frac=1e-4)
    evals += r["evals"] + B.extra_evals
    und += r["undecided"]
    msgs += [f"{fam} row {k}: minimum table ({float(tmin[0])!r} at {float(tmin[1])!r}): {m}" for m in r["messages"]]
    g = lambda c: -f(c)
    B = bench.Second1D(g, L, info["L2"])
    r = cover.certify_optimum(g, lo, up, B, [float(tmax[1])], -float(tmax[0]), nb_frac=1e-4, value_tol=1e-4, abs_tol=1e-4,
                              resolve_frac=1e-4)
    evals += r["evals"] + B.extra_evals
    und += r["undecided"]
    msgs += [f"{fam} row {k}: maximum table ({float(tmax[0])!r} at {float(tmax[1])!r}), judged on -f: {m}" for m in r["messages"]]
    Llo, Lhi, e = lipschitz_interval(f, float(lo[0]), float(up[0]), info["L2"])
    evals += e
    if tL < Llo * (1 - 1e-3) or tL > Lhi * (1 + 1e-3):
        msgs.append(f"{fam} row {k}: Lipschitz table {tL!r} but max |f'| lies in [{Llo!r}, {Lhi!r}] (more than 0.1% off)")
    elif not (tL >= Lhi * (1 - 1e-3) and tL <= Llo * (1 + 1e-3)):
        und += 1
    return msgs, evals, und, abs(tL - Llo) / Llo


def run(ctx):
    res = Result()
    mem = members()
    chunks = [mem[i:i + 25] for i in range(0, len(mem), 25)]
    # Grishagin constructions are slow: spread them
    chunks.sort(key=lambda c: -sum(1 for f, a in c if f == "Grishagin"))
    out = pmap(metadata_chunk, chunks)
    nmeta = 0
    for ch, rs in zip(chunks, out):
        for (fam, args), msgs in zip(ch, rs):
            nmeta += 1
            for m in msgs:
                res.add_violation(dict(driver="metadata", fam=fam, args=list(args), message=m, sig={}))
    tasks = [dict(fam=f, k=k) for f in ("Hill", "Shekel") for k in range(1000)]
    if not ctx.thorough:
        # quick: every row of the tables, too (they are cheap); nothing is sliced by the seed
        pass
    evals = und = 0
    worst = 0.0
    for t, (msgs, e, u, rel) in zip(tasks, pmap(table_row, tasks, chunksize=4)):
        evals += e
        und += u
        worst = max(worst, rel)
        for m in msgs:
            res.add_violation(dict(driver="table", fam=t["fam"], k=t["k"], message=m, sig={}))
    res.cov = dict(
        evaluations=evals + nmeta, distinct_nontrivial=nmeta + 3 * len(tasks),
        rule="metadata: one construction per valid constructor argument of every family; tables: one certified 1-D cover per "
             "(family, row, table in {minimum, maximum, Lipschitz}); distinct non-trivial = members + table rows judged",
        exhaustive=True, members=nmeta, table_rows=3 * len(tasks), undecided=und, worst_lipschitz_table_deviation=worst,
        states=nmeta + 3 * len(tasks), transitions=evals, traces_validated_against_impl=nmeta + 3 * len(tasks),
        samples=[["Hill", [0]], ["GKLS", [5, 100]], dict(fam="Shekel", k=999)],
    )
    res.assumptions = ["analytic first/second derivative bounds from the run-time tables are the trusted base",
                       "Rastrigin / XSquared accept any dimension: 1..8 enumerated"]
    return res


def replay(rec):
    if rec["driver"] == "metadata":
        return metadata_chunk([(rec["fam"], tuple(rec["args"]))])[0]
    return table_row(dict(fam=rec["fam"], k=rec["k"]))[0]

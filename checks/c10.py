"""C10 - the declared optimum of every benchmark instance is its true global minimum.

Exhaustive over all instances; each instance is decided by an exhaustive certified cell cover of its
box (finite abstraction + analytic Lipschitz / curvature bound computed from the coefficient tables at
run time).  f is always the repository's own Calculate; a reported witness is a concrete evaluation."""
import itertools
import math

import numpy as np

from mc.common import Result, pmap
from mc import bench, cover, gkls

PROPERTY = "C10"
LEVEL = "exploration"


def generic(fam, arg):
    if fam == "Hill":
        p, L, info = bench.hill(arg)
    elif fam == "Shekel":
        p, L, info = bench.shekel(arg)
    elif fam == "Shekel4":
        p, L, info = bench.shekel4(arg)
    elif fam == "Grishagin":
        p, L, info = bench.grishagin(arg)
    elif fam == "Rastrigin":
        p, L, info = bench.rastrigin(arg)
    elif fam == "XSquared":
        p, L, info = bench.xsquared(arg)
    else:
        raise KeyError(fam)
    f = bench.evaluator(p)
    lo, up = bench.bounds(p)
    pt, val = bench.declared(p)
    r = cover.certify_optimum(f, lo, up, L, pt, val, max_evals=3_000_000 if fam != "Shekel4" else 30_000_000)
    r["evals"] += getattr(L, "extra_evals", 0)
    return r


def separable(fam, n):
    """Rastrigin / XSquared of dimension n: f_n(y) = sum f_1(y_i) on the 9^n lattice + metadata of the declared optimum;
    together with the certified 1-D cover this decides every dimension (product box, separable objective)"""
    p1 = (bench.rastrigin if fam == "Rastrigin" else bench.xsquared)(1)[0]
    pn = (bench.rastrigin if fam == "Rastrigin" else bench.xsquared)(n)[0]
    f1, fn = bench.evaluator(p1), bench.evaluator(pn)
    lo1, up1 = bench.bounds(p1)
    lo, up = bench.bounds(pn)
    msgs = []
    if not (np.all(lo == lo1[0]) and np.all(up == up1[0])):
        msgs.append(f"{fam}({n}): box {lo.tolist()}..{up.tolist()} is not the product of the 1-D box")
    pt, val = bench.declared(pn)
    pt1, val1 = bench.declared(p1)
    if not (np.all(pt == pt1[0]) and abs(val - n * val1) <= 1e-9):
        msgs.append(f"{fam}({n}): declared optimum {pt.tolist()}, {val} is not n copies of the 1-D optimum {pt1.tolist()}, {val1}")
    grid = np.linspace(lo1[0], up1[0], 9)
    g1 = [f1([x]) for x in grid]
    evals = 0
    for idx in itertools.product(range(9), repeat=n):
        y = [grid[i] for i in idx]
        v = fn(y)
        e = sum(g1[i] for i in idx)
        evals += 1
        if abs(v - e) > 1e-9 * max(1.0, abs(e)):
            msgs.append(f"{fam}({n}): f({y}) = {v!r} but the sum of the 1-D terms is {e!r}")
            break
    return dict(messages=msgs, evals=evals, undecided=0, leaves=evals, capped=False)


def strongin():
    p, f, L, gs, info = bench.strongin()
    lo, up = bench.bounds(p)
    pt, val = bench.declared(p)
    r = cover.certify_optimum(f, lo, up, L, pt, val, feas=gs, max_evals=3_000_000)
    # the declared point (6 printed digits) must be feasible up to its printed precision
    worst = max(g(pt) for g, _ in gs)
    if worst > 1e-3:
        r["messages"].append(f"StronginC3: declared optimum point {pt.tolist()} violates a constraint by {worst!r}")
    return r


def gkls_instance(n, k):
    S = gkls.Structure(n, k)
    msgs = []
    evals = 0
    pt, val = bench.declared(S.p)
    v0 = gkls.value(S.p, pt)
    evals += 1
    if abs(v0 - val) > 1e-4:
        msgs.append(f"GKLS({n},{k}): objective at the declared optimum point is {v0!r}, declared {val!r}")
    tol = 2e-3 * max(1.0, abs(val))
    # where do minima lower than / as low as the declared one sit?
    for i in range(S.nmin):
        if S.f[i] < val - tol:
            msgs.append(f"GKLS({n},{k}): minimiser {i} at {S.M[i].tolist()} has value {S.f[i]!r} (Calculate: "
                        f"{gkls.value(S.p, S.M[i])!r}), lower than the declared optimum {val!r}")
        elif S.f[i] <= val + 1e-5 and np.max(np.abs(S.M[i] - pt)) > 0.005 * 2.0 and i > 0 and gkls.value(S.p, S.M[i]) <= val + 1e-5:
            # an equally low minimum elsewhere is fine only if the declared point is near *a* global minimiser
            if np.max(np.abs(S.M[int(np.argmin(S.f))] - pt)) > 0.01:
                msgs.append(f"GKLS({n},{k}): declared point {pt.tolist()} is farther than 0.5% of the box side from "
                            f"every global minimiser (lowest minimum at {S.M[int(np.argmin(S.f))].tolist()})")
    und = cells = 0
    for i in range(1, S.nmin):
        r = gkls.basin_cover(S, i, nplanes=2)
        evals += r["evals"]
        und += r["undecided"]
        cells += r["cells"]
        msgs += r["messages"]
        m2, e2 = gkls.bilinear_lattice(S, i, nplanes=2, ns=6, nc=4)
        evals += e2
        msgs += m2
        # basin value vs declared optimum (clauses ii and iii for the basin as a whole; its minimum is at the centre)
        d = float(np.max(np.abs(S.M[i] - pt)))
        if d > 0.01 and S.f[i] - 1e-5 <= val:
            msgs.append(f"GKLS({n},{k}): basin {i} centred {S.M[i].tolist()} reaches {S.f[i]!r} <= declared optimum {val!r} "
                        f"but lies {d!r} from the declared point")
    # inside the basin of the declared point: beyond 0.5% of the side the function must be strictly above the optimum
    j = int(np.argmin([np.linalg.norm(S.M[i] - pt) if i else np.inf for i in range(S.nmin)]))
    r = gkls.cover_ball(S, j, S.f[j], s_from=0.01 * math.sqrt(n), strict=True, nplanes=2)
    evals += r["evals"]
    und += r["undecided"]
    cells += r["cells"]
    for c, v in r["witnesses"][:2]:
        msgs.append(f"GKLS({n},{k}): at distance {c[0]!r} from the declared optimum the value {v!r} is not above it")
    # paraboloid region: lattice points outside all balls (dispatch rule + paraboloid formula)
    for x in gkls.lattice_points(n, (-1.0, -0.5, 0.0, 0.5, 1.0) if n <= 4 else (-1.0, 0.0, 1.0)):
        if S.in_ball(x) == 0:
            v = gkls.value(S.p, x)
            evals += 1
            e = float(np.sum((x - S.T) ** 2) + S.f[0])
            if abs(v - e) > 1e-9 * max(1.0, abs(e)) or v < val - tol:
                msgs.append(f"GKLS({n},{k}): outside all attraction balls at {x.tolist()} the value is {v!r}, paraboloid gives {e!r}")
                break
    if S.f[0] < val + 1e-5:
        msgs.append(f"GKLS({n},{k}): paraboloid minimum {S.f[0]!r} is not above the declared optimum {val!r}")
    return dict(messages=msgs, evals=evals, undecided=und, leaves=cells, capped=False)


def _build(fam, arg):
    if fam == "GKLS":
        from iOpt.problems.GKLS import GKLS
        return GKLS(*arg)
    mod, cls = {"Hill": ("hill", "Hill"), "Shekel": ("shekel", "Shekel"), "Shekel4": ("shekel4", "Shekel4"),
                "Grishagin": ("grishagin", "Grishagin"), "Rastrigin": ("rastrigin", "Rastrigin"),
                "XSquared": ("xsquared", "XSquared")}[fam]
    import importlib
    return getattr(importlib.import_module("iOpt.problems." + mod), cls)(arg)


def declared_pass(task):
    """clause (i) for EVERY member of a family, inside one process and in a fixed order of construction (ascending or
    descending): the objective at the declared point equals the declared value within 1e-4 - for the member just
    constructed and, again, for the member constructed before it (members are independent objects)."""
    fam, args = task["family"], task["args"]
    msgs, evals = [], 0
    prev = None
    for arg in args:
        try:
            p = _build(fam, arg)
        except Exception as e:
            msgs.append(f"{fam}({arg}): constructor raised {type(e).__name__}: {e}")
            continue
        for q, a, again in ((p, arg, False),) + (((prev[0], prev[1], True),) if prev else ()):
            pt, val = bench.declared(q)
            try:
                v = bench.evaluator(q)(pt)
            except Exception as e:
                msgs.append(f"{fam}({a}): Calculate at the declared optimum raised {type(e).__name__}: {e}")
                continue
            evals += 1
            if not abs(v - val) <= 1e-4:
                msgs.append(f"{fam}({a}): objective at the declared optimum point {pt.tolist()} is {v!r}, declared {val!r}"
                            + (f" (re-evaluated after {fam}({arg}) was constructed)" if again else
                               f" (members constructed in the order {args[:3]}...)"))
            elif len(pt) >= 2 and not again:
                # the same object evaluated at points that share coordinates with the declared point (its coordinates
                # rotated, one of them replaced by the box centre), then at the declared point again: same value
                lo_, up_ = bench.bounds(q)
                mid = (lo_ + up_) / 2
                primes = [np.roll(pt, 1)]
                for ax in range(len(pt)):
                    pr = np.roll(pt, 1).copy()
                    pr[ax] = mid[ax]
                    primes.append(pr)
                for pr in primes:
                    if np.all(pr >= lo_) and np.all(pr <= up_):
                        try:
                            bench.evaluator(q)(pr)
                            v2 = bench.evaluator(q)(pt)
                        except Exception as e:
                            msgs.append(f"{fam}({a}): Calculate raised {type(e).__name__}: {e}")
                            break
                        evals += 2
                        if v2 != v:
                            msgs.append(f"{fam}({a}): objective at the declared optimum point {pt.tolist()} is {v2!r} after an "
                                        f"evaluation at {pr.tolist()}, it was {v!r} before (declared {val!r})")
                            break
        # the same object after (1) one evaluation outside its box and (2) its generator re-targeted to another member and
        # back (A, B, A) through the public SetFunctionNumber: the declared point still has the declared value
        try:
            pt, val = bench.declared(p)
            lo_, up_ = bench.bounds(p)
            v = bench.evaluator(p)(pt)
            out_pt = np.array(pt, dtype=float)
            out_pt[0] = up_[0] + 0.37 * (up_[0] - lo_[0])
            try:
                bench.evaluator(p)(out_pt)
            except Exception:
                pass
            v2 = bench.evaluator(p)(pt)
            evals += 3
            if v2 != v:
                msgs.append(f"{fam}({arg}): objective at the declared optimum point is {v2!r} after one evaluation outside the box "
                            f"at {out_pt.tolist()}, it was {v!r} before (declared {val!r})")
            gen = getattr(p, "function", None)
            if gen is not None and hasattr(gen, "SetFunctionNumber") and fam in ("GKLS", "Grishagin"):
                a_no = arg[1] if fam == "GKLS" else arg
                b_no = a_no % 100 + 1
                for seq_ in ((b_no, a_no), (a_no,), (b_no, b_no % 100 + 1, a_no)):
                    for no in seq_:
                        if fam == "GKLS":
                            gen.SetFunctionNumber(no)
                        else:
                            gen.fn = no                 # the Grishagin generator is re-targeted through its number field
                            gen.SetFunctionNumber()
                    v3 = bench.evaluator(p)(pt)
                    evals += 1
                    if v3 != v:
                        msgs.append(f"{fam}({arg}): after function.SetFunctionNumber{seq_} the objective at the declared optimum point "
                                    f"is {v3!r}, it was {v!r} (declared {val!r})")
                        break
        except Exception as e:
            msgs.append(f"{fam}({arg}): evaluation outside the box / re-targeting the generator raised {type(e).__name__}: {e}")
        prev = (p, arg)
        if len(msgs) > 4:
            break
    return msgs, evals


def _neighbours(fam, arg):
    """members constructed (and dropped) before the instance under test: its successor and its predecessor"""
    if fam == "GKLS":
        return [[arg[0], k] for k in (arg[1] + 1, arg[1] - 1) if 1 <= k <= 100]
    lo, hi = {"Hill": (0, 999), "Shekel": (0, 999), "Grishagin": (1, 100), "Shekel4": (1, 3)}.get(fam, (1, 0))
    return [k for k in (arg + 1, arg - 1) if lo <= k <= hi]


def lattice_witness(task):
    """clause (ii) as a witness search on a finite lattice for EVERY member of a multi-dimensional family (the certified
    cover of each member is the thorough tier's job): any lattice point whose value is below declared - tol is a
    concrete counterexample."""
    fam, arg, npts = task["family"], task["arg"], task["npts"]
    keep = []
    for nb in _neighbours(fam, arg):
        try:
            keep.append(_build(fam, nb))
        except Exception:
            pass
    try:
        p = _build(fam, arg)
        f = bench.evaluator(p)
        lo, up = bench.bounds(p)
        pt, val = bench.declared(p)
    except Exception as e:
        return [f"{fam}({arg}): {type(e).__name__}: {e}"], 0
    tol = 2e-3 * max(1.0, abs(val))
    axes = [np.linspace(lo[i], up[i], npts) for i in range(len(lo))]
    best, arg_best, n = np.inf, None, 0
    for c in itertools.product(*axes):
        v = f(c)
        n += 1
        if v < best:
            best, arg_best = v, c
    if best < val - tol:
        return [f"{fam}({arg}): point {[float(x) for x in arg_best]} has value {best!r}, lower than the declared optimum "
                f"{val!r} by more than {tol!r}"], n
    return [], n


def instance(task):
    fam, arg = task["family"], task["arg"]
    # history: the neighbouring members of the family are constructed first, in the same process - a member must not
    # depend on what was constructed before it
    keep = []
    for nb in _neighbours(fam, arg):
        try:
            keep.append(_build(fam, nb))
        except Exception:
            pass
    try:
        if fam == "GKLS":
            r = gkls_instance(*arg)
        elif fam == "StronginC3":
            r = strongin()
        elif fam in ("Rastrigin", "XSquared") and arg > 1:
            r = separable(fam, arg)
        else:
            r = generic(fam, arg)
    except Exception as e:
        return dict(messages=[f"{fam}({arg}): {type(e).__name__}: {e}"], evals=0, undecided=0, leaves=0, capped=False)
    r["messages"] = [m if m.startswith(fam) else f"{fam}({arg}): {m}" for m in r["messages"]]
    return {k: r[k] for k in ("messages", "evals", "undecided", "leaves", "capped")}


def plan(ctx):
    th = ctx.thorough
    tasks = []
    gr = list(range(1, 101)) if th else ctx.pick(list(range(1, 101)), 3)
    tasks += [dict(family="Grishagin", arg=k) for k in gr]
    tasks += [dict(family="Shekel4", arg=k) for k in (1, 2, 3)]
    tasks.append(dict(family="StronginC3", arg=0))
    tasks += [dict(family="Rastrigin", arg=n) for n in range(1, 6)]
    tasks += [dict(family="XSquared", arg=n) for n in range(1, 6)]
    tasks += [dict(family="GKLS", arg=[n, k]) for n in (2, 3, 4, 5) for k in range(1, 101)]
    tasks += [dict(family="Hill", arg=k) for k in range(1000)]
    tasks += [dict(family="Shekel", arg=k) for k in range(1000)]
    return tasks


def run(ctx):
    res = Result()
    tasks = plan(ctx)
    out = pmap(instance, tasks, chunksize=1)
    evals = und = leaves = 0
    capped = []
    per = {}
    for t, r in zip(tasks, out):
        evals += r["evals"]
        und += r["undecided"]
        leaves += r["leaves"]
        fam = t["family"]
        e = per.setdefault(fam, dict(instances=0, evaluations=0, undecided=0))
        e["instances"] += 1
        e["evaluations"] += r["evals"]
        e["undecided"] += r["undecided"]
        if r["capped"]:
            capped.append(f"{fam}({t['arg']})")
        for m in r["messages"]:
            res.add_violation(dict(driver="instance", family=fam, arg=t["arg"], message=m, sig={}))
    # clause (i) for every member of every family, in both construction orders, each order in a process of its own
    from mc.common import pmap_fresh
    fams = {"Hill": list(range(1000)), "Shekel": list(range(1000)), "Grishagin": list(range(1, 101)), "Shekel4": [1, 2, 3],
            "Rastrigin": list(range(1, 9)), "XSquared": list(range(1, 9))}
    for n in (2, 3, 4, 5):
        fams[f"GKLS{n}"] = [[n, k] for k in range(1, 101)]
    dtasks = []
    for f, args in fams.items():
        fam = "GKLS" if f.startswith("GKLS") else f
        dtasks.append(dict(family=fam, args=args))
        dtasks.append(dict(family=fam, args=args[::-1]))
    declared_evals = 0
    for t, (msgs, ne) in zip(dtasks, pmap_fresh(declared_pass, dtasks)):
        declared_evals += ne
        evals += ne
        for m in msgs:
            res.add_violation(dict(driver="declared", family=t["family"], args=t["args"], message=m, sig={}))
    wtasks = [dict(family="Grishagin", arg=k, npts=41) for k in range(1, 101)] + \
             [dict(family="Shekel4", arg=k, npts=11) for k in (1, 2, 3)]
    lattice_evals = 0
    for t, (msgs, ne) in zip(wtasks, pmap(lattice_witness, wtasks)):
        lattice_evals += ne
        evals += ne
        for m in msgs:
            res.add_violation(dict(driver="lattice", **t, message=m, sig={}))
    res.cov = dict(
        evaluations=evals, distinct_nontrivial=len(tasks), declared_point_evaluations=declared_evals,
        lattice_witness_evaluations=lattice_evals,
        rule="one certified cover per benchmark instance (declared value at the declared point; no cell of the box below "
             "declared - 2e-3*max(1,|f*|); every cell farther than 0.5% of the side from the declared point strictly above "
             "the best value near it); distinct non-trivial = instances; evaluations = real Calculate calls",
        exhaustive=not capped, instances=len(tasks), per_family=per, cells=leaves, undecided=und, capped=capped,
        states=leaves, transitions=evals, traces_validated_against_impl=len(tasks),
        samples=[tasks[0], tasks[-1], dict(family="GKLS", arg=[3, 17])],
    )
    res.assumptions = ["analytic Lipschitz / curvature bounds (from the run-time coefficient tables) are the trusted base: a "
                       "wrong bound can hide a violation, a reported witness is always a real evaluation",
                       "GKLS: dispatch rule (paraboloid outside the balls) read from the code and confirmed on the lattice; "
                       "inside a ball the cubic depends on (distance, axial component) only - checked across planes",
                       "quick covers 3 Grishagin instances selected by VERIF_SEED; thorough all 100"]
    return res


def replay(rec):
    if rec.get("driver") == "lattice":
        return lattice_witness(rec)[0]
    if rec.get("driver") == "declared":
        return declared_pass(dict(family=rec["family"], args=rec["args"]))[0]
    return instance(dict(family=rec["family"], arg=rec["arg"]))["messages"]

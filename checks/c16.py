"""C16 - objective failure is contained: Solve returns the best-so-far result.

Fault enumeration: for every node of the answer tree (every history of every depth j <= d) the next
evaluation (k = j+1 >= 2) raises, for each of five exception types; plus every fault position of
deviation-free long runs on default environments."""
import itertools

import numpy as np

from mc.common import Result, pmap
from mc import tree
from mc.env import Snapshot
from mc.envs import make_env
from mc.monitors import check_optimum, check_record
from mc.solverexp import ALPHABETS

PROPERTY = "C16"
LEVEL = "fault_enumeration"


class ObjErr(BaseException):
    """a user exception that does not derive from Exception"""


EXC = {"Exception": Exception, "ValueError": ValueError, "BaseExceptionSubclass": ObjErr,
       "KeyboardInterrupt": KeyboardInterrupt, "SystemExit": SystemExit, "GeneratorExit": GeneratorExit}

# further shapes of the same failure: exceptions constructed without arguments (what Ctrl-C and MemoryError look
# like in practice), with non-string or several arguments, and failures raised by the interpreter itself
SHAPES = {
    "KeyboardInterrupt()": lambda: KeyboardInterrupt(),
    "BaseExceptionSubclass()": lambda: ObjErr(),
    "MemoryError()": lambda: MemoryError(),
    "Exception(42)": lambda: Exception(42),
    "OSError(2, 'No such file')": lambda: OSError(2, "No such file"),
    "StopIteration()": lambda: StopIteration(),
    "ZeroDivisionError from 1/0": None,
    "Exception(())": lambda: Exception(()),
    "IndexError('list index out of range')": lambda: IndexError("list index out of range"),
    "KeyError('value')": lambda: KeyError("value"),
    "AttributeError('x')": lambda: AttributeError("x"),
    "TypeError('unsupported operand')": lambda: TypeError("unsupported operand"),
}


def _raise(excname):
    if excname in EXC:
        raise EXC[excname]("injected objective failure")
    mk = SHAPES[excname]
    if mk is None:
        return 1 / 0
    raise mk()


def fault_case(cfg, base_answer, k, excname, resume=True, prefail=False):
    """Solve with the k-th evaluation raising; returns messages.
    prefail: the very first evaluation attempt fails too (outside the statement, k >= 2, and not judged), Solve is
    called again and it is the failure at the k-th evaluation of that second Solve that is judged."""
    shift = 1 if prefail else 0

    def answer(i, y):
        if prefail and i == 1:
            raise RuntimeError("injected failure of the first evaluation")
        if i - shift == k:
            _raise(excname)
        return base_answer(i - shift, y)
    from mc.env import Recorder
    told = []      # every trial a listener was told about: (x, point, value)
    rec = Recorder(on_iter=lambda pts, sol: told.extend(
        (p.GetX(), np.array(p.GetY().floatVariables, dtype=float), p.GetZ()) for p in pts))
    listeners = [rec] if k % 2 == 0 else []
    if k % 3 == 0:
        # a shipped console listener rides along on every third fault position (its output is swallowed)
        from iOpt.method.listener import ConsoleFullOutputListener
        listeners.append(ConsoleFullOutputListener(mode=("full", "custom", "result")[(k // 3) % 3], iters=2))
    run = tree.make_run(dict(cfg, eps=0.0, itersLimit=k + 3), answer, listeners=listeners)
    if prefail:
        try:
            run.solve()
        except BaseException:
            return []      # a failure of the very first evaluation is outside the statement (k >= 2): not judged
        told.clear()
    try:
        sol = run.solve()
    except BaseException as e:
        return [f"{excname} raised by evaluation {k} escaped from Solve as {type(e).__name__}"
                + (" (second Solve; the first evaluation attempt of the first Solve had failed too)" if prefail else "")
                + (" (console listener attached)" if k % 3 == 0 else "")]
    msgs = []
    log = run.problem.log

    def told_ok(where):
        seen = set()
        for (x, y, z) in told:
            if not any(np.array_equal(y, yy) and z == v for yy, v in run.problem.log):
                return [f"{where}: a listener was told about a trial at x={x!r} with value {z!r}, which is not one of the "
                        f"{len(run.problem.log)} completed trials"]
            if x in seen:
                return [f"{where}: a listener was told twice about the trial at x={x!r}"]
            seen.add(x)
        return []
    msgs += told_ok(f"after failure at evaluation {k} ({excname})")
    if len(log) != k - 1:
        msgs.append(f"{len(log)} evaluations completed, expected {k - 1} (failure at evaluation {k}, {excname})")
    if sol.numberOfGlobalTrials != k - 1:
        msgs.append(f"reported {sol.numberOfGlobalTrials} global trials after a failure at evaluation {k} ({excname}); "
                    f"{k - 1} were completed")
    snap = Snapshot(run.solver)
    where = f"after failure at evaluation {k} ({excname})"
    msgs += check_optimum(snap, log, where)
    msgs += check_record(snap, log, run.N, run.fresh_evolvent(), where)
    if len(run.problem.attempts) >= k:
        fy = run.problem.attempts[k - 1]
        if not any(np.array_equal(fy, y) for y, _ in log):
            if any(np.array_equal(np.asarray(it.y), fy) for it in snap.items[1:-1]):
                msgs.append(f"{where}: the failed point {fy.tolist()} is recorded in the search information")
    if msgs or not resume:
        return msgs
    # the solver is used again after the contained failure (the objective now answers): the result must again reflect
    # exactly the completed trials
    try:
        sol = run.solve()
    except BaseException as e:
        return [f"{where}: Solve called again raised {type(e).__name__}: {e}"]
    log = run.problem.log
    where = f"Solve resumed after the failure at evaluation {k} ({excname})"
    if sol.numberOfGlobalTrials != len(log):
        msgs.append(f"{where}: reported {sol.numberOfGlobalTrials} global trials, {len(log)} evaluations were completed")
    if len(log) > k + 3:
        msgs.append(f"{where}: {len(log)} evaluations completed with itersLimit={k + 3}")
    snap = Snapshot(run.solver)
    msgs += check_optimum(snap, log, where)
    msgs += check_record(snap, log, run.N, run.fresh_evolvent(), where)
    msgs += told_ok(where)
    if rec in getattr(run, "_listeners", [rec]) and k % 2 == 0 and len(told) != len(log):
        msgs.append(f"{where}: listeners were told about {len(told)} trials, {len(log)} were completed")
    return msgs


def block(task):
    cfg, alphabet, depth = task["cfg"], task["alphabet"], task["depth"]
    prefix = tuple(task["prefix"])
    stats = dict(runs=0, nodes=0)
    viol = []
    # nodes: the block prefix itself and everything below it; shorter prefixes are handled by the block whose
    # remaining digits are all zero
    nodes = []
    nodes += [prefix[:j] for j in range(1, len(prefix)) if all(c == 0 for c in prefix[j:])]
    for extra in range(0, depth - len(prefix) + 1):
        for tail in itertools.product(range(len(alphabet)), repeat=extra):
            nodes.append(prefix + tail)
    for node in nodes:
        k = len(node) + 1
        stats["nodes"] += 1
        for exc in list(task["excs"]) + (list(task.get("shapes", ())) if len(node) <= task.get("shape_depth", 99) else []):
            stats["runs"] += 1
            for m in fault_case(cfg, tree.scripted(node, alphabet), k, exc):
                viol.append(dict(driver="tree", cfg=cfg, alphabet=alphabet, choices=list(node), k=k, exc=exc, message=m,
                                 sig=dict(kind="fault")))
            if len(node) <= 3 and exc in ("Exception", "KeyboardInterrupt"):
                stats["runs"] += 1
                for m in fault_case(cfg, tree.scripted(node, alphabet), k, exc, prefail=True):
                    viol.append(dict(driver="tree", cfg=cfg, alphabet=alphabet, choices=list(node), k=k, exc=exc, prefail=True,
                                     message="after a failed first evaluation and a second Solve: " + m, sig=dict(kind="fault")))
        if len(viol) > 30:
            break
    return stats, viol


def long_case(task):
    cfg, k, exc = task["cfg"], task["k"], task["exc"]
    f = make_env(cfg["env"], cfg)
    return fault_case(cfg, f, k, exc)


def run(ctx):
    res = Result()
    th = ctx.thorough
    excs = list(EXC)
    tasks = []
    plan = []
    for N in (1, 2, 3):
        for a in (["A013", "A001", "Am201"] if th else ["A013"] + ctx.pick(["A001", "Am201", "A01"], 1)):
            d = {1: 8, 2: 7, 3: 6}[N] + (1 if th else 0) + (3 if len(ALPHABETS[a]) == 2 else 0)
            cfg = dict(N=N, r=2.0 if N != 2 else 3.5, box=("B0", "B1", "B2")[N - 1])
            plan.append(dict(cfg=cfg, alphabet=a, depth=d))
            for t in tree.tree_tasks(cfg, ALPHABETS[a], d, split=2):
                t["excs"] = excs
                t["shapes"] = list(SHAPES)
                t["shape_depth"] = 99 if th else 4
                tasks.append(t)
    # a Problem that returns a new value holder / leaves a 0-d array in it; bounds and parameters spelled differently;
    # declared constraints: the failure is contained in the same way
    for N in (1, 2):
        for extra in (dict(holder="fresh"), dict(holder="zerod"), dict(spell="tuple"), dict(spell="npscalar"),
                      dict(constraints=2, discrete=1)):
            d = {1: 6, 2: 5}[N]
            cfg = dict(N=N, r=2.0, box="B1", **extra)
            plan.append(dict(cfg=cfg, alphabet="A013", depth=d))
            for t in tree.tree_tasks(cfg, ALPHABETS["A013"], d, split=2):
                t["excs"] = excs[:3]
                t["shapes"] = []
                t["shape_depth"] = 0
                tasks.append(t)
    out = pmap(block, tasks)
    runs = nodes = 0
    for st, viol in out:
        runs += st["runs"]
        nodes += st["nodes"]
        res.merge_violations(viol)
    ltasks = []
    for env in ("abs13", "lin", "sin", "const", "stair"):
        for N in (1, 2):
            cfg = dict(N=N, r=2.5, box="B1", env=env)
            for k in range(2, (120 if th else 60) + 1):
                for exc in ((excs + list(SHAPES)) if th else
                            ("Exception", "KeyboardInterrupt") + (tuple(SHAPES) if (env, N) == ("abs13", 1) or k <= 6 else ())):
                    ltasks.append(dict(cfg=cfg, k=k, exc=exc))
    for env in ("abs13", "quad"):
        cfg = dict(N=2, r=3.0, box="B1", env=env, density=3)
        for k in range(2, (160 if th else 90) + 1):
            ltasks.append(dict(cfg=cfg, k=k, exc="Exception"))
    lout = pmap(long_case, ltasks, chunksize=8)
    for t, msgs in zip(ltasks, lout):
        for m in msgs:
            res.add_violation(dict(driver="long", cfg=t["cfg"], k=t["k"], exc=t["exc"], message=m, sig=dict(kind="fault")))
    res.cov = dict(
        evaluations=runs + len(ltasks), distinct_nontrivial=nodes + len({(t["cfg"]["env"], t["cfg"]["N"], t["k"]) for t in ltasks}),
        rule="one execution of Solve per (history, fault position k = |history|+1, exception type); histories = all nodes "
             "of the answer tree up to the depth bound plus every position of deviation-free long runs; distinct "
             "non-trivial = distinct (history, fault position) pairs (k >= 2, so at least one completed trial)",
        exhaustive=True, fault_positions=nodes, exception_types=excs + list(SHAPES),
        shapes_applied_to="every node" if th else "every node of depth <= 4, every position of one long run, positions <= 6 of the others", plan=plan, long_run_faults=len(ltasks),
        states=nodes, transitions=runs, traces_validated_against_impl=runs + len(ltasks),
        samples=[dict(cfg=tasks[0]["cfg"], history=[0, 1], fault_at=3, exc="KeyboardInterrupt"), ltasks[0]],
    )
    res.assumptions = ["the objective fails by raising; values restricted to the alphabets / default environments"]
    return res


def replay(rec):
    cfg = rec["cfg"]
    if rec["driver"] == "long":
        return long_case(dict(cfg=cfg, k=rec["k"], exc=rec["exc"]))
    return fault_case(cfg, tree.scripted(rec["choices"], rec["alphabet"]), rec["k"], rec["exc"], prefail=bool(rec.get("prefail")))

"""C05 - all evaluations and the result stay inside the box; refinement never worsens.

Exhaustive over a finite configuration lattice: objectives whose unconstrained minimum lies outside or
on the boundary (all 3^N-1 linear directions, quadratics centred on the lattice {outside-low, low, mid,
high, outside-high}^N, a cone at every corner) x boxes B0..B3 x N x refineSolution x itersLimit.  Every
argument of Problem.Calculate is logged (global and local phase)."""
import itertools

import numpy as np

from mc.common import Result, pmap
from mc import tree
from mc.env import box, BOXES, LATTICE_BOXES, ENDS

PROPERTY = "C05"
LEVEL = "exploration"


def objective(kind, par, lo, up):
    lo = np.array(lo, dtype=float)
    w = np.array(up, dtype=float) - lo
    par = np.array(par, dtype=float)
    if kind == "lin":
        return lambda y: float(np.dot(par, (np.asarray(y) - lo) / w))
    if kind == "quad":
        # par: centre in normalised coordinates (may lie outside [0,1])
        return lambda y: float(np.sum(((np.asarray(y) - lo) / w - par) ** 2))
    if kind == "cone":
        return lambda y: float(np.sqrt(np.sum(((np.asarray(y) - lo) / w - par) ** 2)))
    raise KeyError(kind)


def case(task):
    N, bx, kind, par, lim = task["N"], task["box"], task["kind"], task["par"], task["limit"]
    lo, up = box(bx, N)
    f = objective(kind, par, lo, up)
    lo_a, up_a = np.array(lo), np.array(up)
    msgs = []
    out = {}
    for refine in (False, True):
        cfg = dict(N=N, box=bx, r=2.0, eps=0.01, itersLimit=lim, refine=refine, spell=task.get("spell"),
                   holder=task.get("holder"))
        run = tree.make_run(cfg, lambda k, y: f(y))
        try:
            sol = run.solve()
        except BaseException as e:
            msgs.append(f"refine={refine}: Solve raised {type(e).__name__}: {e}")
            continue
        log = run.problem.log
        nout = 0
        first = None
        for i, (y, v) in enumerate(log):
            if np.any(y < lo_a) or np.any(y > up_a):
                nout += 1
                if first is None:
                    first = (i, y.tolist())
        if nout:
            msgs.append(f"refine={refine}: {nout} of {len(log)} objective evaluations outside the box [{lo}, {up}], "
                        f"first: evaluation {first[0] + 1} at {first[1]} (global trials: {sol.numberOfGlobalTrials})")
        bp = np.array(sol.bestTrials[0].point.floatVariables, dtype=float)
        bv = sol.bestTrials[0].functionValues[0].value
        if np.any(bp < lo_a) or np.any(bp > up_a):
            msgs.append(f"refine={refine}: returned point {bp.tolist()} outside the box [{lo}, {up}]")
        # the user asks the solver's evolvent where the returned point lies on the curve (a read-only query given the
        # very array of the Solution): the returned point must still be the same point afterwards
        try:
            run.solver.evolvent.GetPreimages(sol.bestTrials[0].point.floatVariables)
            run.solver.evolvent.GetInverseImage(sol.bestTrials[0].point.floatVariables)
        except BaseException as e:
            msgs.append(f"refine={refine}: inverse-image query about the returned point raised {type(e).__name__}: {e}")
        bp2 = np.array(sol.bestTrials[0].point.floatVariables, dtype=float)
        if not np.array_equal(bp, bp2):
            msgs.append(f"refine={refine}: the returned point changed from {bp.tolist()} to {bp2.tolist()} after an "
                        f"inverse-image query about it (box [{lo}, {up}])")
        if not (bv == f(bp)):
            msgs.append(f"refine={refine}: reported value {bv!r} but the objective at the returned point is {f(bp)!r}")
        out[refine] = (bv, sol.numberOfGlobalTrials, len(log))
    if False in out and True in out:
        if not (out[True][0] <= out[False][0]):
            msgs.append(f"refinement returned {out[True][0]!r}, worse than the best global-phase trial {out[False][0]!r}")
        if out[True][1] != out[False][1]:
            msgs.append(f"global trial count differs with refinement on: {out[True][1]} vs {out[False][1]}")
    return msgs, out.get(True, (None, 0, 0))[2] - out.get(True, (None, 0, 0))[1]


def twobasin(N, lo, up, a, b):
    lo = np.array(lo, dtype=float)
    w = np.array(up, dtype=float) - lo
    if a == "edge":
        # a very steep, narrow minimum at the lower face next to a shallow interior basin at u = b
        cb = np.full(N, b)
        return lambda y: float(min(-3.0 * np.exp(-300.0 * np.max((np.asarray(y) - lo) / w)),
                                   -1.0 + 4.0 * np.max(np.abs((np.asarray(y) - lo) / w - cb))))
    ca, cb = np.full(N, a), np.full(N, b)
    return lambda y: float(min(-1.0 + 30.0 * np.max(np.abs((np.asarray(y) - lo) / w - ca)),
                               -2.0 + 30.0 * np.max(np.abs((np.asarray(y) - lo) / w - cb))))


def refine_history(task):
    """step-wise history: DoGlobalIteration(k1), DoLocalRefinement(n), DoGlobalIteration(k2), DoLocalRefinement(n).
    After each refinement: every evaluation so far inside the box, reported value == objective at the reported point,
    reported value <= best global-phase value so far, reported point inside the box."""
    N, bx, a, b, k1, k2, nloc = task["N"], task["box"], task["a"], task["b"], task["k1"], task["k2"], task["nloc"]
    lo, up = box(bx, N)
    f = twobasin(N, lo, up, a, b)
    lo_a, up_a = np.array(lo), np.array(up)
    cfg = dict(N=N, box=bx, r=3.0, eps=0.0, itersLimit=10 ** 6)
    run = tree.make_run(cfg, lambda k, y: f(y))
    msgs = []
    tag = f"two-basin objective (minima at u={a}, u={b}), N={N} box={bx}"
    hist = []
    try:
        for step, (kind, n) in enumerate((("g", k1), ("l", nloc), ("g", k2), ("l", nloc))):
            hist.append(f"DoGlobalIteration({n})" if kind == "g" else f"DoLocalRefinement({n})")
            if kind == "g":
                run.step(n)
                continue
            run.refine(n, f)
            sol = run.solver.GetResults()
            bp = np.array(sol.bestTrials[0].point.floatVariables, dtype=float)
            bv = sol.bestTrials[0].functionValues[0].value
            gbest = min(v for _, v in run.problem.log)
            where = f"{tag}: after {hist}"
            for y, v in run.problem.log + run.problem.local_log:
                if np.any(y < lo_a) or np.any(y > up_a):
                    msgs.append(f"{where}: objective evaluated at {y.tolist()}, outside the box")
                    break
            if np.any(bp < lo_a) or np.any(bp > up_a):
                msgs.append(f"{where}: reported point {bp.tolist()} outside the box")
            if not (bv == f(bp)):
                msgs.append(f"{where}: reported value {bv!r} but the objective at the reported point is {f(bp)!r}")
            if not (bv <= gbest):
                msgs.append(f"{where}: refinement reports {bv!r}, worse than the best global-phase trial {gbest!r}")
            if msgs:
                break
    except BaseException as e:
        msgs.append(f"{tag}: {hist} raised {type(e).__name__}: {e}")
    return msgs


def lattice(N, th):
    objs = []
    for a in itertools.product((-1, 0, 1), repeat=N):
        if any(a):
            objs.append(("lin", list(a)))
    pts = (-1.0, 0.0, 0.5, 1.0, 2.0)
    if N <= 3:
        for c in itertools.product(pts, repeat=N):
            objs.append(("quad", list(c)))
    else:
        # axis and diagonal subsets
        for i in range(N):
            for v in pts:
                c = [0.5] * N
                c[i] = v
                objs.append(("quad", c))
        for v in pts:
            objs.append(("quad", [v] * N))
            objs.append(("quad", [v if i % 2 == 0 else 1.0 - v for i in range(N)]))
    for c in itertools.product((0.0, 1.0), repeat=N):
        objs.append(("cone", list(c)))
    return objs


def run(ctx):
    res = Result()
    th = ctx.thorough
    tasks = []
    for N in (1, 2, 3, 4) if not th else (1, 2, 3, 4, 5):
        for kind, par in lattice(N, th):
            for bx in BOXES if (th or N <= 3) else (BOXES[(ctx.seed + len(par)) % 4], "B2"):
                for lim in (1, 20, 200) if th or N <= 3 else (1, 60):
                    tasks.append(dict(N=N, box=bx, kind=kind, par=par, limit=lim))
    # the lattice of boxes with decimal end points (all 36 pairs lo < hi; for N = 2 also two different intervals
    # on the two axes): where the minimum sits on a face the local phase works right at the bound
    for N in (1, 2) if not th else (1, 2, 3):
        objs = [o for o in lattice(N, th) if o[0] != "quad" or all(v in (-1.0, 0.5, 2.0) for v in o[1])]
        boxes = list(LATTICE_BOXES)
        if N >= 2:
            boxes += [f"M:{a}:{b}:{c}:{d}" for (a, b), (c, d) in zip(zip(ENDS, ENDS[1:]), zip(ENDS[2:], ENDS[4:]))]
        for kind, par in objs:
            for bx in boxes:
                for lim in ((60, 200) if th else (200,)):
                    tasks.append(dict(N=N, box=bx, kind=kind, par=par, limit=lim))
    # the same box spelled as tuples / lists / read-only arrays, and a Problem that returns a new value holder
    for N in (1, 2, 3):
        for kind, par in lattice(N, th):
            for extra in (dict(spell="tuple"), dict(spell="list"), dict(spell="readonly"), dict(holder="fresh"), dict(holder="zerod")):
                tasks.append(dict(N=N, box="B1" if N != 2 else "B2", kind=kind, par=par, limit=60, **extra))
    htasks = []
    for N in (1, 2):
        for (a, b) in ((0.12, 0.83), (0.83, 0.12), (0.4, 0.9), ("edge", 0.6)):
            for k1 in range(2, 13 if not th else 20):
                for k2 in range(1, 13 if not th else 20):
                    htasks.append(dict(N=N, box="B1" if N == 1 else "B2", a=a, b=b, k1=k1, k2=k2, nloc=30))
                    # short explicit local budgets (the simplex has not collapsed when the budget ends)
                    if th or (k1 in (2, 5, 9) and k2 in (1, 4, 8)):
                        for nloc in (1, 2, 3, 5):
                            htasks.append(dict(N=N, box="B1" if N == 1 else "D", a=a, b=b, k1=k1, k2=k2, nloc=nloc))
    if th:
        for (a, b) in ((0.12, 0.83), (0.4, 0.9), ("edge", 0.6)):
            for k1 in (3, 8, 15, 30):
                for k2 in (1, 6, 20):
                    for nloc in (1, 3, 30):
                        for bx in ("B2", "D", "S"):
                            htasks.append(dict(N=3, box=bx, a=a, b=b, k1=k1, k2=k2, nloc=nloc))
    for t, msgs in zip(htasks, pmap(refine_history, htasks, chunksize=8)):
        for m in msgs:
            res.add_violation(dict(driver="refine_history", **t, message=m, sig={}))
    # shipped painting listeners probe the objective too: their evaluations must stay inside the box as well
    from mc import painters
    ptasks = painters.tasks(th)
    painter_probes = 0
    for t, o in zip(ptasks, pmap(painters.case, ptasks, chunksize=2)):
        painter_probes += o["probes"]
        for m in o["c05"]:
            res.add_violation(dict(driver="painter", **t, message=m, sig={}))
    out = pmap(case, tasks, chunksize=8)
    local_evals = 0
    boundary = 0
    for t, (msgs, nl) in zip(tasks, out):
        local_evals += max(0, nl)
        if t["kind"] == "lin" or any(v <= 0.0 or v >= 1.0 for v in t["par"]):
            boundary += 1
        for m in msgs:
            res.add_violation(dict(driver="lattice", **t, message=f"N={t['N']} box={t['box']} {t['kind']}{t['par']} "
                                                                  f"itersLimit={t['limit']}: {m}", sig={}))
    res.cov = dict(
        evaluations=2 * len(tasks), distinct_nontrivial=boundary,
        rule="one pair of executions (refineSolution off / on) per (N, box, objective of the lattice, itersLimit); every "
             "Calculate argument logged; non-trivial = objectives whose unconstrained minimum lies on the boundary or "
             "outside the box",
        exhaustive=True, configurations=len(tasks), refinement_histories=len(htasks), painter_runs=len(ptasks),
        painter_probe_evaluations=painter_probes, boxes=sorted({t["box"] for t in tasks}), local_phase_evaluations=local_evals,
        states=len(tasks), transitions=2 * len(tasks), traces_validated_against_impl=2 * len(tasks),
        samples=tasks[:2] + tasks[-1:],
    )
    res.assumptions = ["objectives limited to the lattice (linear, quadratic, cone); Nelder-Mead is SciPy's"]
    return res


def replay(rec):
    if rec.get("driver") == "painter":
        from mc import painters
        return painters.case(rec)["c05"]
    if rec.get("driver") == "refine_history":
        return refine_history(rec)
    return case(rec)[0]

"""C06 - the search information is a faithful, ordered and complete record of the trials.

Monitor at every node of the answer trees and the deviation-bounded long runs, on boxes B0..B3,
from outside after each iteration and from inside OnEndIteration / OnMethodStop during Solve."""
from mc.common import Result
from mc import solverexp
from mc.monitors import MomentVisitor, check_record

PROPERTY = "C06"
LEVEL = "model_checking"
VIS = "checks.c06:Vis"


class Vis(MomentVisitor):
    fault_twin = True      # also: the same answers through Solve with the last evaluation failing

    def begin(self, run, cfg):
        super().begin(run, cfg)
        ev = run.fresh_evolvent()
        cache = {}

        def image(x):
            # the evolvent is pure (C17), so one fresh object per execution and one image per coordinate suffice
            v = cache.get(x)
            if v is None:
                v = cache[x] = ev.GetImage(x)
            return v
        self.image = image

    def oracle(self, run, snap, where):
        msgs = check_record(snap, run.problem.log, run.N, self.image, where)
        if run.N == 1:
            # for N = 1 the curve is the affine map of [0, 1] onto the interval: judged by its closed form, whatever
            # numeric type the (whole-number) bounds were typed in
            import math
            import numpy as np
            p = run.problem
            lo0 = p._lower0 if hasattr(p, "_lower0") else p.lowerBoundOfFloatVariables
            up0 = p._upper0 if hasattr(p, "_upper0") else p.upperBoundOfFloatVariables
            a, b = float(np.asarray(lo0).reshape(-1)[0]), float(np.asarray(up0).reshape(-1)[0])
            tol = 4 * math.ulp(max(abs(a), abs(b)))
            for it in snap.items:
                want = a + it.x * (b - a)
                got = float(np.asarray(it.y).reshape(-1)[0])
                if not abs(got - want) <= tol:
                    msgs.append(f"{where}: item x={it.x!r} stores point {got!r}, the image of its coordinate is {want!r}")
                    break
        return msgs

    def nontrivial(self, run):
        # trials landed on both sides of the seed point and at least 3 trials
        xs = [float(y[0]) for y, _ in run.problem.log]
        return len(xs) >= 3 and len(set(xs)) == len(xs)


def run(ctx):
    boxes = ("B0", "B1", "B2", "B3")
    tasks = []
    # rotate boxes over the alphabets so that every (N, box) pair is explored
    for i, bx in enumerate(boxes):
        tasks += solverexp.standard_plan(ctx, VIS, boxes=(bx,), alphabets_fixed=("A013",) if i == 0 else (),
                                         alphabet_pool=("A01", "Am201", "A01e6", "A3210", "A001"),
                                         n_seeded=1, n_seeded_thorough=None if i == 0 else 2,
                                         rs_thorough=(1.05, 1.5, 2.0, 3.5, 8.0) if i == 0 else (2.0, 3.5),
                                         depths_quick=(7, 6, 5, 4, 4), depths_thorough=(8, 8, 7, 6, 5),
                                         long_runs=(i == 0), extras=(i == 0))
        ctx = type(ctx)(ctx.tier, ctx.seed + 1)
    res, agg = solverexp.execute(tasks)
    # Solve with each shipped painting listener attached (they probe the objective and draw through the optimum when
    # the method stops): the returned Solution / the record must still be those of the search trials
    from mc import painters
    from mc.common import pmap
    ptasks = painters.tasks(ctx.thorough)
    for t, o in zip(ptasks, pmap(painters.case, ptasks, chunksize=2)):
        for m in o["c06"]:
            res.add_violation(dict(driver="painter", **t, message=m, sig={}))
    s = agg["summary"]
    # a solver copied mid-run (deepcopy / pickle) and continued: copy and original judged by the same oracle
    from mc import copyrun
    from mc.common import pmap as _pm
    ctasks = copyrun.tasks(ctx.thorough)
    for t, msgs in zip(ctasks, _pm(copyrun.case_c06, ctasks, chunksize=4)):
        for mm in msgs:
            res.add_violation(dict(driver="copy", task=t, message=mm, sig={}))
    res.cov = dict(
        states=agg["nodes"], transitions=agg["nodes"], traces_validated_against_impl=agg["runs"] + s.get("solve_twins", 0),
        evaluations=agg["trials"], distinct_nontrivial=s.get("nontrivial_runs", 0),
        moments_checked=s.get("moments", 0) + s.get("callback_moments", 0), callback_moments=s.get("callback_moments", 0),
        rule="states = distinct answer histories; at each the traversal of the search information is compared with the "
             "evaluation log (order, links, count, lengths, stored points = evolvent image, stored values = answers); "
             "non-trivial = executions with >= 3 distinct trials",
        exhaustive=True, painter_runs=len(ptasks), bounds=solverexp.describe(tasks), resolution_horizon_stops=agg["horizon_stops"],
        samples=[dict(cfg=t["cfg"], alphabet=t.get("alphabet"), prefix=t.get("prefix"), depth=t.get("depth"))
                 for t in tasks[:3]],
    )
    res.assumptions = ["state after local refinement and before the first iteration are outside the statement (DESIGN C06)"]
    return res


def replay(rec):
    if rec.get("driver") == "copy":
        from mc import copyrun
        return copyrun.case_c06(rec["task"])
    if rec.get("driver") == "painter":
        from mc import painters
        return painters.case(rec)["c06"]
    return solverexp.replay(rec, VIS)

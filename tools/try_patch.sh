#!/bin/bash
# usage: tools/try_patch.sh <patch.diff> <ID> [tier]   - run a check against a scratch copy of /repo with the patch applied
# (the copy lives under /tmp and is removed afterwards; evidence/replays of the run go to a scratch dir, not /verif/evidence)
set -u
P=$(realpath "$1"); ID="$2"; TIER="${3:-quick}"
D=$(mktemp -d /tmp/ioptmut.XXXXXX)
rsync -a --exclude .git --exclude docs --exclude examples /repo/ "$D/repo/"
( cd "$D/repo" && patch -p1 -s < "$P" ) || { echo "patch failed"; rm -rf "$D"; exit 3; }
mkdir -p "$D/ev" "$D/rp"
cd "$(dirname "$0")/.."
IOPT_REPO="$D/repo" VERIF_EVIDENCE_DIR="$D/ev" VERIF_REPLAY_DIR="$D/rp" ./run_check.sh "$ID" "$TIER" 2>&1 | cut -c1-600 | tail -${TAILN:-12}
rc=${PIPESTATUS[0]}
rm -rf "$D"
echo "exit=$rc"
exit $rc

#!/bin/bash
# usage: tools/mkdiff.sh <relative file in /repo> <sed expression> > patch.diff
set -e
F="$1"; E="$2"
T=$(mktemp -d /tmp/mkdiff.XXXX); mkdir -p "$T/a/$(dirname $F)" "$T/b/$(dirname $F)"
cp "/repo/$F" "$T/a/$F"; sed -e "$E" "/repo/$F" > "$T/b/$F"
(cd "$T" && diff -u "a/$F" "b/$F") || true
rm -rf "$T"

#!/bin/bash
# usage: tools/sweep_seeds.sh [tier] [seed-name ...]   - runs the target check and its related checks on each seeded patch
# results appended to /tmp/seed_results.txt (scratch; the summary table lives in DESIGN.md / seeded/RESULTS.md)
cd "$(dirname "$0")/.."
TIER="${1:-quick}"; shift
NAMES="$*"; [ -z "$NAMES" ] && NAMES=$(ls seeded | grep -E '^C[0-9]+[a-z]')
related() {
  case "$1" in
    C01|C02|C03|C04|C05|C06|C11|C16|C20) echo "C01 C02 C03 C04 C05 C06 C11 C16 C20 C13 C12";;
    C07|C08|C09|C17) echo "C07 C08 C09 C17 C20";;
    C10|C14|C15|C18) echo "C10 C14 C15 C18";;
    C12) echo "C12 C11 C20 C02";;
    C13) echo "C13 C11 C04";;
    C19) echo "C19 C02 C06";;
  esac
}
for n in $NAMES; do
  id=${n:0:3}
  echo "=== $n ($TIER)" | tee -a /tmp/seed_results.txt
  PAR=${PAR:-4} tools/sweep_patch.sh seeded/$n/patch.diff $TIER $(related $id) 2>&1 | sort | cut -c1-420 | tee -a /tmp/seed_results.txt
done

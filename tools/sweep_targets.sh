#!/bin/bash
# usage: tools/sweep_targets.sh [tier] [seed-name ...]  - for each seeded patch run only the check of the property it breaks; PAR seeds at a time
cd "$(dirname "$0")/.."
TIER="${1:-quick}"; shift
NAMES="$*"; [ -z "$NAMES" ] && NAMES=$(ls seeded | grep -E '^C[0-9]+[a-z]')
one() { n="$1"; id=${n:0:3}; r=$(PAR=1 tools/sweep_patch.sh seeded/$n/patch.diff $TIER $id 2>&1 | cut -c1-420); echo "$n :: $r"; }
export -f one; export TIER
echo $NAMES | tr ' ' '\n' | xargs -P "${PAR:-4}" -I{} bash -c 'one {}'

#!/usr/bin/env python3
"""Regenerates MANIFEST.json from the table below (kept in one place so it is always valid)."""
import json, os
HERE = os.path.dirname(os.path.dirname(os.path.abspath(__file__)))
CHECKS = json.load(open(os.path.join(HERE, "manifest_checks.json")))
props = [json.loads(l)["id"] for l in open(os.path.join(HERE, "properties.jsonl"))]
checks = []
for pid in props:
    c = CHECKS["checks"].get(pid)
    if not c:
        continue
    checks.append({
        "property_id": pid,
        "quick_cmd": f"./run_check.sh {pid} quick",
        "thorough_cmd": f"./run_check.sh {pid} thorough",
        "evidence_file": f"/verif/evidence/{pid}.json",
        "replay_cmd_template": f"./run_check.sh {pid} quick --replay {{path}}",
        "engine": c.get("engine", "mc"),
        "level_claimed": {"category": c["level"], "text": c["text"], "design_ref": c.get("design_ref", f"DESIGN.md section 2, {pid}")},
        "level_note": c["note"],
        "technique": c["technique"],
    })
na = [{"property_id": p, "reason": CHECKS["not_applicable"].get(p, "check not built yet in this session (planned, see DESIGN.md)")}
      for p in props if p not in CHECKS["checks"]]
m = {
    "version": 1,
    "setup_cmd": "cd /verif && PYTHONPATH=/verif:/repo /venv/bin/python -c 'import mc.common, mc.env, mc.tree' && python3-vt -c 'import jsonschema'",
    "hooks": {
        "guard": "IOPT_VERIF",
        "enable": "no source hooks are needed: every check imports iOpt from /repo's working tree (PYTHONPATH) and drives it through public seams; run_check.sh exports IOPT_VERIF=1 for uniformity",
        "baseline_off_cmd": "cd /repo && env -u IOPT_VERIF /venv/bin/python -m pytest -ra -q -p no:cacheprovider --timeout=900 --continue-on-collection-errors",
        "source_commits": [],
        "add_only": True
    },
    "engines": [{"name": "mc", "path": "/verif/mc", "serves_properties": [c["property_id"] for c in checks],
                 "kind_free_text": "hand-written stateless / explicit-state explorers over the real Python implementation (answer trees, deviation-bounded runs, canonical-state BFS, schedule enumeration, automaton extraction + closure), reference models in Python"}],
    "checks": checks,
    "notes": CHECKS.get("notes", ""),
    "not_applicable": na,
}
json.dump(m, open(os.path.join(HERE, "MANIFEST.json"), "w"), indent=1)
print("checks:", len(checks), "not claimed:", len(na))

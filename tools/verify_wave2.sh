#!/bin/bash
# usage: tools/verify_wave2.sh C19 [C04 ...]  - confirm both wave-2 seeds of each property (kept as <ID>c / <ID>d)
cd "$(dirname "$0")/.."
for id in "$@"; do
  for pair in a:c b:d; do
    v=${pair%%:*}; n=${pair##*:}
    tools/verify_seed.sh /tmp/seed2/$id-out $v $id$n 2>&1 | grep -E "RESULT|REJECT|KEPT" | cut -c1-200
  done
  git -C /repo worktree remove --force /tmp/seed2/$id >/dev/null 2>&1
done
git -C /repo worktree prune

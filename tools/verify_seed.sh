#!/bin/bash
# usage: tools/verify_seed.sh <out-dir of a sub-agent> <a|b> <seed-name>
# Confirms a sub-agent's claim in a fresh scratch worktree of /repo (removed afterwards):
#   demo exits 0 on HEAD; patch applies; the repository's test suite passes with it; demo exits non-zero with it.
# On success copies patch.diff / demo.py / meta.json to /verif/seeded/<seed-name>/ (meta gets a "confirmed" block).
set -u
SRC=$(realpath "$1"); V="$2"; NAME="$3"
W=$(mktemp -d /tmp/vseed.XXXXXX); rmdir "$W"
git -C /repo worktree add --detach "$W" HEAD >/dev/null 2>&1 || { echo "worktree failed"; exit 3; }
fin() { git -C /repo worktree remove --force "$W" >/dev/null 2>&1; rm -rf "$W"; }
trap fin EXIT
# demos written by sub-agents may pin the path of their own worktree; make that an environment variable
sed -E "s#[\"']/tmp/seed[0-9]?/C[0-9]+/?[\"']#__import__('os').environ.get('IOPT_TREE', '/')#g" "$SRC/demo_$V.py" > "$W/.demo.py"
export IOPT_TREE="$W"
run_demo() { ( cd "$W" && PYTHONPATH="$W" PYTHONDONTWRITEBYTECODE=1 MPLBACKEND=Agg timeout 600 /venv/bin/python "$W/.demo.py" > "$W/.demo.out" 2>&1; echo $? ); }
d0=$(run_demo)
( cd "$W" && git apply "$SRC/patch_$V.diff" ) || { echo "RESULT $NAME patch-does-not-apply"; exit 4; }
suite=$( cd "$W" && PYTHONPATH="$W" PYTHONDONTWRITEBYTECODE=1 /venv/bin/python -m pytest -q -p no:cacheprovider --timeout=900 --continue-on-collection-errors 2>&1 | tail -1 )
d1=$(run_demo)
tail -3 "$W/.demo.out" | cut -c1-300
echo "RESULT $NAME demo_on_head=$d0 suite_with_patch='$suite' demo_with_patch=$d1"
case "$suite" in *failed*|*error*) echo "REJECT: suite not green"; exit 5;; esac
case "$suite" in *"91 passed"*) ;; *) echo "REJECT: suite count differs"; exit 5;; esac
[ "$d0" = "0" ] && [ "$d1" != "0" ] || { echo "REJECT: demo does not discriminate"; exit 6; }
DST="$(dirname "$0")/../seeded/$NAME"; mkdir -p "$DST"
cp "$SRC/patch_$V.diff" "$DST/patch.diff"; cp "$W/.demo.py" "$DST/demo.py"
/venv/bin/python - "$SRC/meta_$V.json" "$DST/meta.json" "$suite" "$d0" "$d1" <<'PY'
import json, sys
src, dst, suite, d0, d1 = sys.argv[1:]
try:
    m = json.load(open(src))
except Exception as e:
    m = {"meta_unreadable": str(e)}
m["confirmed"] = {"by": "tools/verify_seed.sh in a fresh scratch worktree of /repo HEAD",
                  "demo_exit_on_head": int(d0), "demo_exit_with_patch": int(d1), "suite_with_patch": suite,
                  "ran": ["demo.py on HEAD", "git apply patch.diff", "pytest (full suite)", "demo.py with patch", "worktree removed"]}
json.dump(m, open(dst, "w"), indent=1)
PY
echo "KEPT $DST"

#!/usr/bin/env python3
"""Records the GKLS reference values (golden file) from the tree at $IOPT_REPO (default /repo).
Run once on the pinned tree (GKLS sources untouched by the fix: commits); C14 compares against it.
  PYTHONPATH=/verif:/repo /venv/bin/python tools/make_golden.py
"""
import json, os, sys
import numpy as np
sys.path.insert(0, os.path.dirname(os.path.dirname(os.path.abspath(__file__))))
from checks.c14 import golden_record

out = {}
for n in (2, 3, 4, 5):
    for k in range(1, 101):
        out[f"{n},{k}"] = golden_record(n, k)
path = os.path.join(os.path.dirname(os.path.dirname(os.path.abspath(__file__))), "golden", "gkls.json")
json.dump(out, open(path, "w"))
print("recorded", len(out), "functions ->", path)

#!/bin/bash
# usage: tools/sweep_patch.sh <patch.diff> [tier] [ID ...]
# Applies the patch to a scratch copy of /repo (under /tmp, removed afterwards) and runs the listed
# checks (default: all 20) against it, PAR at a time, each with its own scratch evidence/replay dir.
# Prints one line per check: "<ID> exit=<rc> <first VIOLATION line or last line>".
set -u
P=$(realpath "$1"); TIER="${2:-quick}"; shift; shift 2>/dev/null
IDS="$*"; [ -z "$IDS" ] && IDS="C01 C02 C03 C04 C05 C06 C07 C08 C09 C10 C11 C12 C13 C14 C15 C16 C17 C18 C19 C20"
PAR="${PAR:-4}"
D=$(mktemp -d /tmp/ioptsweep.XXXXXX)
rsync -a --exclude .git --exclude docs --exclude examples /repo/ "$D/repo/"
if ! ( cd "$D/repo" && patch -p1 -s --dry-run < "$P" >/dev/null 2>&1 ); then
  # the patch was written against an earlier HEAD of /repo (before a later "fix:" commit touched the same lines):
  # run it on the commit it was written against
  rm -rf "$D/repo"; mkdir -p "$D/repo"
  git -C /repo archive "${SEED_BASE:-307e96d}" -- iOpt setup.py 2>/dev/null | tar -x -C "$D/repo"
  echo "note: patch does not apply to HEAD; using base ${SEED_BASE:-307e96d}"
fi
( cd "$D/repo" && patch -p1 -s < "$P" ) || { echo "patch failed"; rm -rf "$D"; exit 3; }
cd "$(dirname "$0")/.."
one() {
  ID="$1"
  mkdir -p "$D/ev-$ID" "$D/rp-$ID"
  IOPT_REPO="$D/repo" VERIF_WORKERS="${VERIF_WORKERS:-4}" VERIF_EVIDENCE_DIR="$D/ev-$ID" VERIF_REPLAY_DIR="$D/rp-$ID" \
    timeout "${TMO:-1800}" ./run_check.sh "$ID" "$TIER" > "$D/log-$ID" 2>&1
  rc=$?
  v=$(grep -m1 -E "^VIOLATION" "$D/log-$ID")
  n=$(grep -c -E "^VIOLATION" "$D/log-$ID")
  msg=$(grep -m1 -E "^   " "$D/log-$ID" | cut -c1-260)
  if [ -n "$v" ]; then echo "$ID exit=$rc nviol=$n $v :: $msg"; else echo "$ID exit=$rc $(tail -1 "$D/log-$ID" | cut -c1-160)"; fi
}
export -f one; export D TIER
echo $IDS | tr ' ' '\n' | xargs -P "$PAR" -I{} bash -c 'one {}'
rm -rf "$D"

#!/bin/bash
# usage: tools/verify_wave.sh <wave dir, e.g. /tmp/seed3> <suffix for a> <suffix for b> C19 [C04 ...]
# confirms both seeds of each property of one round and removes the sub-agent's scratch worktree
cd "$(dirname "$0")/.."
W="$1"; SA="$2"; SB="$3"; shift 3
for id in "$@"; do
  for pair in a:$SA b:$SB; do
    v=${pair%%:*}; n=${pair##*:}
    tools/verify_seed.sh $W/$id-out $v $id$n 2>&1 | grep -E "RESULT|REJECT|KEPT" | cut -c1-200
  done
  git -C /repo worktree remove --force $W/$id >/dev/null 2>&1
done
git -C /repo worktree prune

#!/bin/bash
# usage: tools/sweep_mutants.sh [tier]  - each own mutant mNN_*.diff against the quick check CNN it is named after
cd "$(dirname "$0")/.."
TIER="${1:-quick}"
one() { f="$1"; b=$(basename "$f" .diff); id="C${b:1:2}"; r=$(PAR=1 tools/sweep_patch.sh "$f" $TIER $id 2>&1 | cut -c1-300); echo "$b :: $r"; }
export -f one; export TIER
ls mutants/*.diff | xargs -P "${PAR:-3}" -I{} bash -c 'one {}'

#!/bin/bash
# usage: run_check.sh <ID> <quick|thorough> [--replay FILE]
# Runs one property check against the current working tree of $IOPT_REPO (default /repo);
# nothing is cached or built: iOpt is imported from the tree as it is now.
cd "$(dirname "$0")" || exit 2
export IOPT_REPO="${IOPT_REPO:-/repo}"
export PYTHONPATH="$PWD:$IOPT_REPO"
export PYTHONDONTWRITEBYTECODE=1 PYTHONHASHSEED=0 MPLBACKEND=Agg
export OMP_NUM_THREADS=1 OPENBLAS_NUM_THREADS=1 MKL_NUM_THREADS=1
export IOPT_VERIF=1
ID="$1"; TIER="${2:-${VERIF_TIER:-quick}}"; shift; shift
/venv/bin/python -m mc.main "$ID" "$TIER" "$@"
rc=$?
if [ "$1" != "--replay" ]; then
  python3-vt - "$ID" <<'PY' || { echo "HARNESS-ERROR: evidence file invalid"; [ $rc -eq 0 ] && rc=2; }
import json, sys, jsonschema
import os
ev = json.load(open(os.path.join(os.environ.get("VERIF_EVIDENCE_DIR") or "evidence", sys.argv[1].upper() + ".json")))
jsonschema.validate(ev, json.load(open("schemas/EVIDENCE.schema.json")))
PY
fi
exit $rc
